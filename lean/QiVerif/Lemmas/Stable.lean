/-
  Decoders only look at the bytes they consume, and more stack never changes a
  result: a successful decode stays the same when the input is extended and
  when the fuel grows.  From this and a round-trip theorem, "a strict prefix of a
  valid encoding is never accepted" follows for every decoder (Props/C08.lean).
-/
import QiVerif.Lemmas.Decode
set_option linter.unusedSimpArgs false
set_option linter.unusedVariables false
namespace QiVerif.StableL
open QiVerif QiVerif.Sig QiVerif.Codec QiVerif.Value QiVerif.Decode QiVerif.CodecL

/-! ### primitives -/

theorem takeN_ext (n : Nat) (inp a r ext : Bytes) (h : takeN n inp = .ok (a, r)) :
    takeN n (inp ++ ext) = .ok (a, r ++ ext) := by
  obtain ⟨rfl, hl⟩ := takeN_ok n inp a r h
  rw [List.append_assoc]; exact takeN_append n a (r ++ ext) hl

theorem readLE_ext (w : Nat) (inp r ext : Bytes) (n : Nat) (h : readLE w inp = .ok (n, r)) :
    readLE w (inp ++ ext) = .ok (n, r ++ ext) := by
  unfold readLE at h ⊢
  cases ht : takeN w inp with
  | error e => simp [ht] at h
  | ok p =>
    obtain ⟨a, r'⟩ := p
    simp [ht] at h
    obtain ⟨h1, h2⟩ := h
    subst h2
    simp [takeN_ext w inp a r' ext ht, h1]

theorem readString_ext (inp s r ext : Bytes) (h : readString inp = .ok (s, r)) :
    readString (inp ++ ext) = .ok (s, r ++ ext) := by
  unfold readString at h ⊢
  cases hl : readLE 4 inp with
  | error e => simp [hl] at h
  | ok p =>
    obtain ⟨size, r1⟩ := p
    simp only [hl] at h
    rw [readLE_ext 4 inp r1 ext size hl]
    simp only
    by_cases h0 : size = 0
    · simp [h0] at h ⊢; obtain ⟨h1, h2⟩ := h; subst h1 h2; simp
    · simp only [h0, if_false] at h ⊢
      by_cases hm : size > maxStringSize
      · simp [hm] at h
      · simp only [hm, if_false] at h ⊢
        cases ht : takeN size r1 with
        | error e => simp [ht] at h
        | ok q =>
          obtain ⟨b, r'⟩ := q
          simp [ht] at h
          obtain ⟨h1, h2⟩ := h
          subst h1 h2
          simp [takeN_ext size r1 b r' ext ht]

/-! ### the signature-driven reader -/

/-- stability of a decoder outcome under more fuel and more input -/
def StableT (f : Nat) : Prop :=
  (∀ t inp d r, readT f t inp = .ok (d, r) → ∀ j ext, readT (f + j) t (inp ++ ext) = .ok (d, r ++ ext)) ∧
  (∀ t n inp d r, readMany f t n inp = .ok (d, r) → ∀ j ext, readMany (f + j) t n (inp ++ ext) = .ok (d, r ++ ext)) ∧
  (∀ ts inp d r, readFields f ts inp = .ok (d, r) → ∀ j ext, readFields (f + j) ts (inp ++ ext) = .ok (d, r ++ ext)) ∧
  (∀ ms inp d r, readMembers f ms inp = .ok (d, r) → ∀ j ext, readMembers (f + j) ms (inp ++ ext) = .ok (d, r ++ ext))

theorem stableT : ∀ f, StableT f := by
  intro f
  induction f with
  | zero => refine ⟨?_, ?_, ?_, ?_⟩ <;> intros <;> simp_all [readT, readMany, readFields, readMembers]
  | succ f ih =>
    obtain ⟨ihT, ihM, ihF, ihS⟩ := ih
    refine ⟨?_, ?_, ?_, ?_⟩
    · intro t inp d r h j ext
      rw [show f + 1 + j = (f + j) + 1 by omega]
      cases t with
      | basic c =>
        simp only [readT] at h ⊢
        cases hw : width c with
        | some w =>
          simp only [hw] at h ⊢
          cases ht : takeN w inp with
          | error e => simp [ht] at h
          | ok p => obtain ⟨a, r'⟩ := p; simp [ht] at h; obtain ⟨h1, h2⟩ := h; subst h1 h2
                    simp [takeN_ext w inp a r' ext ht]
        | none =>
          simp only [hw] at h ⊢
          by_cases h115 : (c == 115) = true
          · simp only [h115, if_true] at h ⊢
            cases hs : readString inp with
            | error e => simp [hs] at h
            | ok p => obtain ⟨s, r'⟩ := p; simp [hs] at h; obtain ⟨h1, h2⟩ := h; subst h1 h2
                      simp [readString_ext inp s r' ext hs]
          · simp only [h115] at h ⊢
            by_cases h118 : (c == 118) = true
            · simp only [h118, if_true] at h ⊢
              simp at h; obtain ⟨h1, h2⟩ := h; subst h1 h2; simp
            · simp only [h118] at h ⊢
              by_cases h109 : (c == 109) = true
              · simp only [h109, if_true] at h ⊢
                cases hs : readString inp with
                | error e => simp [hs] at h
                | ok p =>
                  obtain ⟨sig, r1⟩ := p
                  simp only [hs] at h
                  rw [readString_ext inp sig r1 ext hs]
                  simp only
                  cases hp : parseSig sig with
                  | error e => simp [hp] at h
                  | ok ty =>
                    simp only [hp] at h ⊢
                    cases hr : readT f ty r1 with
                    | error e => simp [hr] at h
                    | ok q =>
                      obtain ⟨dd, r2⟩ := q
                      simp [hr] at h; obtain ⟨h1, h2⟩ := h; subst h1 h2
                      simp [ihT ty r1 dd r2 hr j ext]
              · simp only [h109] at h ⊢
                by_cases h111 : (c == 111) = true
                · simp only [h111, if_true] at h ⊢
                  exact ihT _ _ _ _ h j ext
                · simp [h111] at h
      | list et =>
        simp only [readT] at h ⊢
        cases hl : readLE 4 inp with
        | error e => simp [hl] at h
        | ok p =>
          obtain ⟨size, r1⟩ := p
          simp only [hl] at h
          rw [readLE_ext 4 inp r1 ext size hl]
          simp only
          by_cases hz : zeroSize et = true
          · simp only [hz, if_true] at h ⊢
            by_cases hb : size > zeroLoopLimit
            · simp [hb] at h
            · simp [hb] at h ⊢; obtain ⟨h1, h2⟩ := h; subst h1 h2; simp
          · simp only [hz] at h ⊢
            cases hm : readMany f et size r1 with
            | error e => simp [hm] at h
            | ok q =>
              obtain ⟨dd, r2⟩ := q
              simp [hm] at h; obtain ⟨h1, h2⟩ := h; subst h1 h2
              simp [ihM et size r1 dd r2 hm j ext]
      | map k v =>
        simp only [readT] at h ⊢
        cases hl : readLE 4 inp with
        | error e => simp [hl] at h
        | ok p =>
          obtain ⟨size, r1⟩ := p
          simp only [hl] at h
          rw [readLE_ext 4 inp r1 ext size hl]
          simp only
          by_cases hz : (zeroSize k && zeroSize v) = true
          · simp only [hz, if_true] at h ⊢
            by_cases hb : size > zeroLoopLimit
            · simp [hb] at h
            · simp [hb] at h ⊢; obtain ⟨h1, h2⟩ := h; subst h1 h2; simp
          · simp only [hz] at h ⊢
            cases hm : readMany f (.tuple [k, v]) size r1 with
            | error e => simp [hm] at h
            | ok q =>
              obtain ⟨dd, r2⟩ := q
              simp [hm] at h; obtain ⟨h1, h2⟩ := h; subst h1 h2
              simp [ihM _ size r1 dd r2 hm j ext]
      | tuple ts => simp only [readT] at h ⊢; exact ihF ts inp d r h j ext
      | struct n ms => simp only [readT] at h ⊢; exact ihS ms inp d r h j ext
    · intro t n inp d r h j ext
      rw [show f + 1 + j = (f + j) + 1 by omega]
      cases n with
      | zero => simp [readMany] at h ⊢; obtain ⟨h1, h2⟩ := h; subst h1 h2; simp
      | succ n =>
        simp only [readMany] at h ⊢
        cases h1 : readT f t inp with
        | error e => simp [h1] at h
        | ok p =>
          obtain ⟨d1, r1⟩ := p
          simp only [h1] at h
          rw [ihT t inp d1 r1 h1 j ext]
          simp only
          cases h2 : readMany f t n r1 with
          | error e => simp [h2] at h
          | ok q =>
            obtain ⟨d2, r2⟩ := q
            simp [h2] at h; obtain ⟨e1, e2⟩ := h; subst e1 e2
            simp [ihM t n r1 d2 r2 h2 j ext]
    · intro ts inp d r h j ext
      rw [show f + 1 + j = (f + j) + 1 by omega]
      cases ts with
      | nil => simp [readFields] at h ⊢; obtain ⟨h1, h2⟩ := h; subst h1 h2; simp
      | cons t tr =>
        simp only [readFields] at h ⊢
        cases h1 : readT f t inp with
        | error e => simp [h1] at h
        | ok p =>
          obtain ⟨d1, r1⟩ := p
          simp only [h1] at h
          rw [ihT t inp d1 r1 h1 j ext]
          simp only
          cases h2 : readFields f tr r1 with
          | error e => simp [h2] at h
          | ok q =>
            obtain ⟨d2, r2⟩ := q
            simp [h2] at h; obtain ⟨e1, e2⟩ := h; subst e1 e2
            simp [ihF tr r1 d2 r2 h2 j ext]
    · intro ms inp d r h j ext
      rw [show f + 1 + j = (f + j) + 1 by omega]
      cases ms with
      | nil => simp [readMembers] at h ⊢; obtain ⟨h1, h2⟩ := h; subst h1 h2; simp
      | cons m tr =>
        obtain ⟨nm, t⟩ := m
        simp only [readMembers] at h ⊢
        cases h1 : readT f t inp with
        | error e => simp [h1] at h
        | ok p =>
          obtain ⟨d1, r1⟩ := p
          simp only [h1] at h
          rw [ihT t inp d1 r1 h1 j ext]
          simp only
          cases h2 : readMembers f tr r1 with
          | error e => simp [h2] at h
          | ok q =>
            obtain ⟨d2, r2⟩ := q
            simp [h2] at h; obtain ⟨e1, e2⟩ := h; subst e1 e2
            simp [ihS tr r1 d2 r2 h2 j ext]

theorem readT_stable (f : Nat) (t : Ty) (inp d r : Bytes) (h : readT f t inp = .ok (d, r)) (j : Nat) (ext : Bytes) :
    readT (f + j) t (inp ++ ext) = .ok (d, r ++ ext) := (stableT f).1 t inp d r h j ext

/-! ### dynamic values -/

theorem readOpaque_stable (f : Nat) (sig inp : Bytes) (v : Val) (r : Bytes)
    (h : readOpaque f sig inp = .ok (v, r)) (j : Nat) (ext : Bytes) :
    readOpaque (f + j) sig (inp ++ ext) = .ok (v, r ++ ext) := by
  unfold readOpaque at h ⊢
  generalize (if sig == [111] then objRefSig else sig) = sig' at h ⊢
  simp only at h ⊢
  cases hp : parseSig sig' with
  | error e => simp [hp] at h
  | ok t =>
    simp only [hp] at h ⊢
    cases hr : readT f t inp with
    | error e => simp [hr] at h
    | ok q =>
      obtain ⟨d, r'⟩ := q
      simp [hr] at h; obtain ⟨h1, h2⟩ := h; subst h1 h2
      simp [readT_stable f t inp d r' hr j ext]

def StableV (f : Nat) : Prop :=
  (∀ inp v r, readVal f inp = .ok (v, r) → ∀ j ext, readVal (f + j) (inp ++ ext) = .ok (v, r ++ ext)) ∧
  (∀ n inp vs r, readVals f n inp = .ok (vs, r) → ∀ j ext, readVals (f + j) n (inp ++ ext) = .ok (vs, r ++ ext))

theorem stableV : ∀ f, StableV f := by
  intro f
  induction f with
  | zero => refine ⟨?_, ?_⟩ <;> intros <;> simp_all [readVal, readVals]
  | succ f ih =>
    obtain ⟨ihV, ihL⟩ := ih
    refine ⟨?_, ?_⟩
    · intro inp v r h j ext
      rw [show f + 1 + j = (f + j) + 1 by omega]
      simp only [readVal] at h ⊢
      cases hs : readString inp with
      | error e => simp [hs] at h
      | ok p =>
        obtain ⟨sig, r1⟩ := p
        simp only [hs] at h
        rw [readString_ext inp sig r1 ext hs]
        simp only
        split at h
        · -- a one-letter signature
          rename_i c
          by_cases ht : tableScalars.contains c = true
          · simp only [ht, if_true] at h ⊢
            cases hw : width c with
            | none => simp [hw] at h
            | some w =>
              simp only [hw] at h ⊢
              cases hl : readLE w r1 with
              | error e => simp [hl] at h
              | ok q =>
                obtain ⟨n, r2⟩ := q
                simp [hl] at h; obtain ⟨h1, h2⟩ := h; subst h1 h2
                simp [readLE_ext w r1 r2 ext n hl]
          · simp only [ht] at h ⊢
            by_cases h115 : (c == 115) = true
            · simp only [h115, if_true] at h ⊢
              cases hs2 : readString r1 with
              | error e => simp [hs2] at h
              | ok q => obtain ⟨s, r2⟩ := q; simp [hs2] at h; obtain ⟨h1, h2⟩ := h; subst h1 h2
                        simp [readString_ext r1 s r2 ext hs2]
            · simp only [h115] at h ⊢
              by_cases h114 : (c == 114) = true
              · simp only [h114, if_true] at h ⊢
                cases hl : readLE 4 r1 with
                | error e => simp [hl] at h
                | ok q =>
                  obtain ⟨size, r2⟩ := q
                  simp only [hl] at h
                  rw [readLE_ext 4 r1 r2 ext size hl]
                  simp only
                  by_cases hb : size > rawValueMaxSize
                  · simp [hb] at h
                  · simp only [hb, if_false] at h ⊢
                    cases htk : takeN size r2 with
                    | error e => simp [htk] at h
                    | ok q2 => obtain ⟨b, r3⟩ := q2; simp [htk] at h; obtain ⟨h1, h2⟩ := h; subst h1 h2
                               simp [takeN_ext size r2 b r3 ext htk]
              · simp only [h114] at h ⊢
                by_cases h118 : (c == 118) = true
                · simp only [h118, if_true] at h ⊢
                  simp at h; obtain ⟨h1, h2⟩ := h; subst h1 h2; simp
                · simp only [h118] at h ⊢
                  by_cases h109 : (c == 109) = true
                  · simp only [h109, if_true] at h ⊢
                    exact ihV r1 v r h j ext
                  · simp only [h109] at h ⊢
                    exact readOpaque_stable f _ r1 v r h j ext
        · -- "[m]"
          cases hl : readLE 4 r1 with
          | error e => simp [hl] at h
          | ok q =>
            obtain ⟨size, r2⟩ := q
            simp only [hl] at h
            rw [readLE_ext 4 r1 r2 ext size hl]
            simp only
            by_cases hb : size > listValueMaxSize
            · simp [hb] at h
            · simp only [hb, if_false] at h ⊢
              cases hv : readVals f size r2 with
              | error e => simp [hv] at h
              | ok q2 =>
                obtain ⟨xs, r3⟩ := q2
                simp [hv] at h; obtain ⟨h1, h2⟩ := h; subst h1 h2
                simp [ihL size r2 xs r3 hv j ext]
        · exact readOpaque_stable f _ r1 v r h j ext
    · intro n inp vs r h j ext
      rw [show f + 1 + j = (f + j) + 1 by omega]
      cases n with
      | zero => simp [readVals] at h ⊢; obtain ⟨h1, h2⟩ := h; subst h1 h2; simp
      | succ n =>
        simp only [readVals] at h ⊢
        cases h1 : readVal f inp with
        | error e => simp [h1] at h
        | ok p =>
          obtain ⟨v1, r1⟩ := p
          simp only [h1] at h
          rw [ihV inp v1 r1 h1 j ext]
          simp only
          cases h2 : readVals f n r1 with
          | error e => simp [h2] at h
          | ok q =>
            obtain ⟨v2, r2⟩ := q
            simp [h2] at h; obtain ⟨e1, e2⟩ := h; subst e1 e2
            simp [ihL n r1 v2 r2 h2 j ext]

theorem readVal_stable (f : Nat) (inp : Bytes) (v : Val) (r : Bytes) (h : readVal f inp = .ok (v, r)) (j : Nat)
    (ext : Bytes) : readVal (f + j) (inp ++ ext) = .ok (v, r ++ ext) := (stableV f).1 inp v r h j ext

/-! ### the typed decoders -/

theorem readCount_ext (cfg : DecCfg) (inp r ext : Bytes) (n : Nat) (h : readCount cfg inp = .ok (n, r)) :
    readCount cfg (inp ++ ext) = .ok (n, r ++ ext) := by
  unfold readCount at h ⊢
  cases hl : readLE 4 inp with
  | error e => simp [hl] at h
  | ok p =>
    obtain ⟨m, r1⟩ := p
    simp only [hl] at h
    rw [readLE_ext 4 inp r1 ext m hl]
    simp only
    cases hs : (cfg.signedCount && decide (m ≥ 2147483648)) with
    | true => simp [hs] at h
    | false =>
      simp only [hs, Bool.false_eq_true, if_false] at h ⊢
      cases hc : cfg.countLimit with
      | none =>
        simp only [hc] at h ⊢
        by_cases hb : m > r1.length + 65536
        · simp [hb] at h
        · have hb' : ¬ m > (r1 ++ ext).length + 65536 := by simp; omega
          simp only [hb, hb', if_false] at h ⊢
          injection h with h; injection h with h1 h2; subst h1 h2; rfl
      | some l =>
        simp only [hc] at h ⊢
        by_cases hb : m > l
        · simp [hb] at h
        · simp only [hb, if_false] at h ⊢
          injection h with h; injection h with h1 h2; subst h1 h2; rfl

def StableD (cfg : DecCfg) (f : Nat) : Prop :=
  (∀ t inp x r, decT cfg f t inp = .ok (x, r) → ∀ j ext, decT cfg (f + j) t (inp ++ ext) = .ok (x, r ++ ext)) ∧
  (∀ t n inp x r, decMany cfg f t n inp = .ok (x, r) → ∀ j ext, decMany cfg (f + j) t n (inp ++ ext) = .ok (x, r ++ ext)) ∧
  (∀ k v n inp x r, decPairs cfg f k v n inp = .ok (x, r) →
      ∀ j ext, decPairs cfg (f + j) k v n (inp ++ ext) = .ok (x, r ++ ext)) ∧
  (∀ ts inp x r, decFields cfg f ts inp = .ok (x, r) → ∀ j ext, decFields cfg (f + j) ts (inp ++ ext) = .ok (x, r ++ ext)) ∧
  (∀ ms inp x r, decMembers cfg f ms inp = .ok (x, r) → ∀ j ext, decMembers cfg (f + j) ms (inp ++ ext) = .ok (x, r ++ ext))

theorem stableD (cfg : DecCfg) : ∀ f, StableD cfg f := by
  intro f
  induction f with
  | zero => refine ⟨?_, ?_, ?_, ?_, ?_⟩ <;> intros <;> simp_all [decT, decMany, decPairs, decFields, decMembers]
  | succ f ih =>
    obtain ⟨ihT, ihM, ihP, ihF, ihS⟩ := ih
    refine ⟨?_, ?_, ?_, ?_, ?_⟩
    · intro t inp x r h j ext
      rw [show f + 1 + j = (f + j) + 1 by omega]
      cases t with
      | basic c =>
        simp only [decT] at h ⊢
        cases hw : width c with
        | some w =>
          simp only [hw] at h ⊢
          cases hl : readLE w inp with
          | error e => simp [hl] at h
          | ok p => obtain ⟨n, r'⟩ := p; simp [hl] at h; obtain ⟨h1, h2⟩ := h; subst h1 h2
                    simp [readLE_ext w inp r' ext n hl]
        | none =>
          simp only [hw] at h ⊢
          by_cases h115 : (c == 115) = true
          · simp only [h115, if_true] at h ⊢
            cases hs : readString inp with
            | error e => simp [hs] at h
            | ok p => obtain ⟨s, r'⟩ := p; simp [hs] at h; obtain ⟨h1, h2⟩ := h; subst h1 h2
                      simp [readString_ext inp s r' ext hs]
          · simp only [h115] at h ⊢
            by_cases h118 : (c == 118) = true
            · simp only [h118, if_true] at h ⊢
              simp at h; obtain ⟨h1, h2⟩ := h; subst h1 h2; simp
            · simp only [h118] at h ⊢
              by_cases h109 : (c == 109) = true
              · simp only [h109, if_true] at h ⊢
                cases hv : readVal f inp with
                | error e => simp [hv] at h
                | ok p =>
                  obtain ⟨v, r'⟩ := p
                  simp [hv] at h; obtain ⟨h1, h2⟩ := h; subst h1 h2
                  simp [readVal_stable f inp v r' hv j ext]
              · simp only [h109] at h ⊢
                by_cases h111 : (c == 111) = true
                · simp only [h111, if_true] at h ⊢
                  exact ihT _ _ _ _ h j ext
                · simp [h111] at h
      | list et =>
        simp only [decT] at h ⊢
        cases hl : readCount cfg inp with
        | error e => simp [hl] at h
        | ok p =>
          obtain ⟨n, r1⟩ := p
          simp only [hl] at h
          rw [readCount_ext cfg inp r1 ext n hl]
          simp only
          cases hm : decMany cfg f et n r1 with
          | error e => simp [hm] at h
          | ok q =>
            obtain ⟨xs, r2⟩ := q
            simp [hm] at h; obtain ⟨h1, h2⟩ := h; subst h1 h2
            simp [ihM et n r1 xs r2 hm j ext]
      | map k v =>
        simp only [decT] at h ⊢
        cases hl : readCount cfg inp with
        | error e => simp [hl] at h
        | ok p =>
          obtain ⟨n, r1⟩ := p
          simp only [hl] at h
          rw [readCount_ext cfg inp r1 ext n hl]
          simp only
          cases hm : decPairs cfg f k v n r1 with
          | error e => simp [hm] at h
          | ok q =>
            obtain ⟨xs, r2⟩ := q
            simp [hm] at h; obtain ⟨h1, h2⟩ := h; subst h1 h2
            simp [ihP k v n r1 xs r2 hm j ext]
      | tuple ts =>
        simp only [decT] at h ⊢
        cases hm : decFields cfg f ts inp with
        | error e => simp [hm] at h
        | ok q =>
          obtain ⟨xs, r2⟩ := q
          simp [hm] at h; obtain ⟨h1, h2⟩ := h; subst h1 h2
          simp [ihF ts inp xs r2 hm j ext]
      | struct nm ms =>
        simp only [decT] at h ⊢
        cases hm : decMembers cfg f ms inp with
        | error e => simp [hm] at h
        | ok q =>
          obtain ⟨xs, r2⟩ := q
          simp [hm] at h; obtain ⟨h1, h2⟩ := h; subst h1 h2
          simp [ihS ms inp xs r2 hm j ext]
    · intro t n inp x r h j ext
      rw [show f + 1 + j = (f + j) + 1 by omega]
      cases n with
      | zero => simp [decMany] at h ⊢; obtain ⟨h1, h2⟩ := h; subst h1 h2; simp
      | succ n =>
        simp only [decMany] at h ⊢
        cases h1 : decT cfg f t inp with
        | error e => simp [h1] at h
        | ok p =>
          obtain ⟨d1, r1⟩ := p
          simp only [h1] at h
          rw [ihT t inp d1 r1 h1 j ext]
          simp only
          cases h2 : decMany cfg f t n r1 with
          | error e => simp [h2] at h
          | ok q =>
            obtain ⟨d2, r2⟩ := q
            simp [h2] at h; obtain ⟨e1, e2⟩ := h; subst e1 e2
            simp [ihM t n r1 d2 r2 h2 j ext]
    · intro k v n inp x r h j ext
      rw [show f + 1 + j = (f + j) + 1 by omega]
      cases n with
      | zero => simp [decPairs] at h ⊢; obtain ⟨h1, h2⟩ := h; subst h1 h2; simp
      | succ n =>
        simp only [decPairs] at h ⊢
        cases h1 : decT cfg f k inp with
        | error e => simp [h1] at h
        | ok p =>
          obtain ⟨a, r1⟩ := p
          simp only [h1] at h
          rw [ihT k inp a r1 h1 j ext]
          simp only
          cases h2 : decT cfg f v r1 with
          | error e => simp [h2] at h
          | ok p2 =>
            obtain ⟨b, r2⟩ := p2
            simp only [h2] at h
            rw [ihT v r1 b r2 h2 j ext]
            simp only
            cases h3 : decPairs cfg f k v n r2 with
            | error e => simp [h3] at h
            | ok q =>
              obtain ⟨d2, r3⟩ := q
              simp [h3] at h; obtain ⟨e1, e2⟩ := h; subst e1 e2
              simp [ihP k v n r2 d2 r3 h3 j ext]
    · intro ts inp x r h j ext
      rw [show f + 1 + j = (f + j) + 1 by omega]
      cases ts with
      | nil => simp [decFields] at h ⊢; obtain ⟨h1, h2⟩ := h; subst h1 h2; simp
      | cons t tr =>
        simp only [decFields] at h ⊢
        cases h1 : decT cfg f t inp with
        | error e => simp [h1] at h
        | ok p =>
          obtain ⟨d1, r1⟩ := p
          simp only [h1] at h
          rw [ihT t inp d1 r1 h1 j ext]
          simp only
          cases h2 : decFields cfg f tr r1 with
          | error e => simp [h2] at h
          | ok q =>
            obtain ⟨d2, r2⟩ := q
            simp [h2] at h; obtain ⟨e1, e2⟩ := h; subst e1 e2
            simp [ihF tr r1 d2 r2 h2 j ext]
    · intro ms inp x r h j ext
      rw [show f + 1 + j = (f + j) + 1 by omega]
      cases ms with
      | nil => simp [decMembers] at h ⊢; obtain ⟨h1, h2⟩ := h; subst h1 h2; simp
      | cons m tr =>
        obtain ⟨nm, t⟩ := m
        simp only [decMembers] at h ⊢
        cases h1 : decT cfg f t inp with
        | error e => simp [h1] at h
        | ok p =>
          obtain ⟨d1, r1⟩ := p
          simp only [h1] at h
          rw [ihT t inp d1 r1 h1 j ext]
          simp only
          cases h2 : decMembers cfg f tr r1 with
          | error e => simp [h2] at h
          | ok q =>
            obtain ⟨d2, r2⟩ := q
            simp [h2] at h; obtain ⟨e1, e2⟩ := h; subst e1 e2
            simp [ihS tr r1 d2 r2 h2 j ext]

theorem decT_stable (cfg : DecCfg) (f : Nat) (t : Ty) (inp : Bytes) (x : DVal) (r : Bytes)
    (h : decT cfg f t inp = .ok (x, r)) (j : Nat) (ext : Bytes) :
    decT cfg (f + j) t (inp ++ ext) = .ok (x, r ++ ext) := (stableD cfg f).1 t inp x r h j ext

/-! ### from round trip + stability to "no strict prefix is accepted" -/

/-- A decoder `dec` (fuel, input) that is stable and decodes `enc` completely at fuel `F`
    rejects every strict prefix of `enc`, at every fuel. -/
theorem prefix_rejected {α : Type} (dec : Nat → Bytes → Res (α × Bytes))
    (stable : ∀ f inp x r, dec f inp = .ok (x, r) → ∀ j ext, dec (f + j) (inp ++ ext) = .ok (x, r ++ ext))
    (enc : Bytes) (F : Nat) (x0 : α) (hrt : dec F enc = .ok (x0, []))
    (k : Nat) (hk : k < enc.length) (f : Nat) : (dec f (enc.take k)).isError = true := by
  cases hd : dec f (enc.take k) with
  | error e => rfl
  | ok p =>
    exfalso
    obtain ⟨x, r⟩ := p
    have h1 := stable f (enc.take k) x r hd F (enc.drop k)
    rw [List.take_append_drop] at h1
    have h2 := stable F enc x0 [] hrt f []
    rw [List.append_nil, Nat.add_comm] at h2
    rw [h2] at h1
    have : ([] : Bytes) ++ [] = r ++ enc.drop k := by injection h1 with h1; injection h1 with _ h1
    have hl := congrArg List.length this
    simp at hl
    omega

end QiVerif.StableL
