/-
  Lemmas about the lexical layer of Model/Idl.lean (literals, keywords with their word boundary,
  identifiers); used by Props/C18.lean.
-/
import QiVerif.Model.Idl
set_option linter.unusedSimpArgs false
set_option linter.unusedVariables false
namespace QiVerif.C18
open QiVerif QiVerif.Idl

theorem stripPrefix_append (l r : Bytes) : stripPrefix l (l ++ r) = some r := by
  induction l with
  | nil => cases r <;> rfl
  | cons a l ih => simp [stripPrefix, ih]

/-- what may follow a printed type: the end, or a character that is neither part of a word nor `<` -/
def Follow : Bytes → Prop
  | [] => True
  | c :: _ => isWord c = false ∧ c ≠ 60

def AllWord (n : Bytes) : Prop := ∀ c ∈ n, isWord c = true

theorem word_not_ws (c : UInt8) (h : isWord c = true) : isWS c = false := by
  simp only [isWord, isWS, Bool.or_eq_true, Bool.and_eq_true, decide_eq_true_eq, beq_iff_eq] at h ⊢
  rcases h with ((h | h) | h) | h
  · subst h; decide
  all_goals (
    obtain ⟨h1, h2⟩ := h
    have a1 := UInt8.le_iff_toNat_le.mp h1
    have a2 := UInt8.le_iff_toNat_le.mp h2
    simp only [Bool.or_eq_false_iff, beq_eq_false_iff_ne, ne_eq]
    refine ⟨⟨⟨?_, ?_⟩, ?_⟩, ?_⟩ <;> (intro e; subst e; simp at a1 a2))

theorem skipWS_cons (c : UInt8) (r : Bytes) (h : isWS c = false) : skipWS (c :: r) = c :: r := by
  simp [skipWS, h]

/-- a literal whose characters differ from the input at some position within both does not match -/
def mismatch : Bytes → Bytes → Bool
  | a :: l, c :: r => if a == c then mismatch l r else true
  | _, _ => false

theorem stripPrefix_mismatch (l b rest : Bytes) (h : mismatch l b = true) : stripPrefix l (b ++ rest) = none := by
  induction l generalizing b with
  | nil => simp [mismatch] at h
  | cons a l ih =>
    cases b with
    | nil => simp [mismatch] at h
    | cons c r =>
      simp only [mismatch] at h
      simp only [List.cons_append, stripPrefix]
      split
      · rename_i hac; simp [hac] at h; exact ih r h
      · rfl

theorem atom_nonws (lit : Bytes) (c : UInt8) (r : Bytes) (h : isWS c = false) : atom lit (c :: r) = stripPrefix lit (c :: r) := by
  simp [atom, skipWS_cons c r h]

/-- a keyword followed by what may follow a type is recognised -/
theorem keyword_hit (k rest : Bytes) (c : UInt8) (k' : Bytes) (hk : k = c :: k') (hc : isWS c = false) (hf : Follow rest) :
    keyword k (k ++ rest) = some rest := by
  subst hk
  unfold keyword
  have : atom (c :: k') ((c :: k') ++ rest) = some rest := by
    rw [List.cons_append, atom_nonws _ c _ hc, ← List.cons_append]; exact stripPrefix_append _ _
  rw [this]
  cases rest with
  | nil => rfl
  | cons d r => simp only [Follow] at hf; simp [hf.1]

theorem keyword_mismatch (k b rest : Bytes) (c : UInt8) (b' : Bytes) (hb : b = c :: b') (hc : isWS c = false)
    (h : mismatch k b = true) : keyword k (b ++ rest) = none := by
  subst hb
  unfold keyword
  rw [List.cons_append, atom_nonws _ c _ hc, ← List.cons_append, stripPrefix_mismatch k _ rest h]

/-- the basic types a printer writes: every keyword but the two repeated ones -/
def canon (k : Nat) : Bool := k < 18 && k != 10 && k != 11

/-- no earlier keyword is a prefix of a later one (the finite table, decided in the kernel) -/
theorem keywords_mismatch : ∀ j k : Fin 18, canon k.val = true → j.val < k.val →
    mismatch (keywords[j.val]?.getD []) (keywords[k.val]?.getD []) = true := by decide

theorem keywords_shape : keywords.all (fun k => match k with | c :: _ => !isWS c && k.all isWord | [] => false) = true := by decide

theorem keyword_shape (k : Bytes) (hk : k ∈ keywords) : ∃ c k', k = c :: k' ∧ isWS c = false ∧ AllWord k := by
  have := List.all_eq_true.mp keywords_shape k hk
  cases k with
  | nil => simp at this
  | cons c k' =>
    simp only [Bool.and_eq_true, Bool.not_eq_true', List.all_eq_true] at this
    exact ⟨c, k', rfl, this.1, this.2⟩

theorem firstKeyword_none (ks : List Bytes) (i : Nat) (inp : Bytes) (h : ∀ k ∈ ks, keyword k inp = none) :
    firstKeyword ks i inp = none := by
  induction ks generalizing i with
  | nil => rfl
  | cons k r ih =>
    simp only [firstKeyword, h k (by simp)]
    exact ih (i + 1) (fun x hx => h x (by simp [hx]))

theorem firstKeyword_scan (ks : List Bytes) (i m : Nat) (inp rest : Bytes)
    (hbefore : ∀ j, j < m → ∀ k, ks[j]? = some k → keyword k inp = none)
    (hat : ∃ k, ks[m]? = some k ∧ keyword k inp = some rest) :
    firstKeyword ks i inp = some (i + m, rest) := by
  induction m generalizing ks i with
  | zero =>
    obtain ⟨k, hk, hm⟩ := hat
    cases ks with
    | nil => simp at hk
    | cons x r => simp at hk; subst hk; simp [firstKeyword, hm]
  | succ n ih =>
    obtain ⟨k, hk, hm⟩ := hat
    cases ks with
    | nil => simp at hk
    | cons x r =>
      have hx : keyword x inp = none := hbefore 0 (by omega) x (by simp)
      simp only [firstKeyword, hx]
      have := ih r (i + 1) (fun j hj k' hk' => hbefore (j + 1) (by omega) k' (by simpa using hk')) ⟨k, by simpa using hk, hm⟩
      rw [this]; congr 2; omega

/-- a printed basic type is read back: the keyword itself is the first one that matches -/
theorem basic_hit (k : Nat) (hk : canon k = true) (rest : Bytes) (hf : Follow rest) :
    firstKeyword keywords 0 ((keywords[k]?.getD []) ++ rest) = some (k, rest) := by
  have hlt : k < 18 := by simp [canon] at hk; omega
  have hlen : keywords.length = 18 := rfl
  obtain ⟨kw, hkw⟩ : ∃ kw, keywords[k]? = some kw := ⟨keywords[k]'(by omega), by simp [hlen, hlt]⟩
  rw [hkw]; simp only [Option.getD_some]
  obtain ⟨c, k', he, hc, _⟩ := keyword_shape kw (List.mem_of_getElem? hkw)
  have := firstKeyword_scan keywords 0 k (kw ++ rest) rest ?_ ⟨kw, hkw, keyword_hit kw rest c k' he hc hf⟩
  · simpa using this
  · intro j hj kj hkj
    have hm := keywords_mismatch ⟨j, by omega⟩ ⟨k, hlt⟩ hk hj
    simp only [hkj, hkw, Option.getD_some] at hm
    exact keyword_mismatch kj kw rest c k' he hc hm

theorem stripPrefix_word (k n rest : Bytes) (hk : AllWord k) (hn : AllWord n) (hne : k ≠ n) (hf : Follow rest) :
    match stripPrefix k (n ++ rest) with
    | some (c :: _) => isWord c = true
    | some [] => False
    | none => True := by
  induction k generalizing n with
  | nil =>
    cases n with
    | nil => exact absurd rfl hne
    | cons c n' => simp [stripPrefix]; exact hn c (by simp)
  | cons a k' ih =>
    cases n with
    | nil =>
      cases rest with
      | nil => simp [stripPrefix]
      | cons d r =>
        simp only [List.nil_append, stripPrefix]
        have ha := hk a (by simp)
        simp only [Follow] at hf
        have : (a == d) = false := by
          simp only [beq_eq_false_iff_ne, ne_eq]; intro e; subst e; rw [ha] at hf; cases hf.1
        simp [this]
    | cons c n' =>
      simp only [List.cons_append, stripPrefix]
      by_cases hac : a = c
      · have : (a == c) = true := by simp [hac]
        rw [this]; simp only [if_true]
        exact ih n' (fun x hx => hk x (by simp [hx])) (fun x hx => hn x (by simp [hx]))
          (by intro e; apply hne; rw [hac, e])
      · have : (a == c) = false := by simp [hac]
        rw [this]; simp

/-- an identifier that is not a keyword is not taken for one: a keyword ends at a word boundary -/
theorem keyword_on_word (k n rest : Bytes) (hk : AllWord k) (hn : AllWord n) (hne : k ≠ n) (hnn : n ≠ []) (hf : Follow rest) :
    keyword k (n ++ rest) = none := by
  have hw := stripPrefix_word k n rest hk hn hne hf
  cases n with
  | nil => exact absurd rfl hnn
  | cons c n' =>
    have hc : isWS c = false := word_not_ws c (hn c (by simp))
    unfold keyword
    rw [List.cons_append, atom_nonws _ c _ hc, ← List.cons_append]
    cases hs : stripPrefix k ((c :: n') ++ rest) with
    | none => rfl
    | some r =>
      rw [hs] at hw
      cases r with
      | nil => exact absurd hw id
      | cons d r' => simp only at hw; simp [hw]

theorem spanWord_word (w rest : Bytes) (hw : AllWord w) (hf : Follow rest) : spanWord (w ++ rest) = (w, rest) := by
  induction w with
  | nil =>
    cases rest with
    | nil => rfl
    | cons d r => simp only [Follow] at hf; simp [spanWord, hf.1]
  | cons c w' ih =>
    have hc := hw c (by simp)
    simp only [List.cons_append, spanWord, hc, if_true]
    rw [ih (fun x hx => hw x (by simp [hx]))]

theorem alpha_word (c : UInt8) (hc : isAlphaU c = true) : isWord c = true := by
  simp only [isAlphaU, isWord, Bool.or_eq_true] at hc ⊢
  rcases hc with (h | h) | h
  · exact Or.inl (Or.inl (Or.inl h))
  · exact Or.inl (Or.inr h)
  · exact Or.inr h

/-- a plain identifier followed by what may follow a type is read as that identifier -/
theorem typeIdent_plain (c : UInt8) (w rest : Bytes) (hc : isAlphaU c = true) (hw : AllWord w) (hf : Follow rest) :
    typeIdent ((c :: w) ++ rest) = some (c :: w, rest) := by
  have hcw : isWord c = true := alpha_word c hc
  unfold typeIdent
  rw [List.cons_append, skipWS_cons c _ (word_not_ws c hcw)]
  simp only [hc, Bool.not_true, Bool.false_eq_true, if_false]
  rw [spanWord_word w rest hw hf]
  simp only
  cases rest with
  | nil => rfl
  | cons d r =>
    simp only [Follow] at hf
    split
    · rename_i r2 heq; injection heq with h1 _; exact absurd h1 hf.2
    · rfl

theorem isWord_lt : isWord 60 = false := by decide

theorem stripPrefix_lt (w n rest : Bytes) (hw : AllWord w) (hn : AllWord n) (hf : Follow rest) :
    stripPrefix (w ++ [60]) (n ++ rest) = none := by
  induction w generalizing n with
  | nil =>
    cases n with
    | nil =>
      cases rest with
      | nil => rfl
      | cons d r =>
        simp only [Follow] at hf
        have : ((60 : UInt8) == d) = false := by
          simp only [beq_eq_false_iff_ne, ne_eq]; intro e; exact hf.2 e.symm
        simp [stripPrefix, this]
    | cons c n' =>
      have hc := hn c (by simp)
      have : ((60 : UInt8) == c) = false := by
        simp only [beq_eq_false_iff_ne, ne_eq]; intro e; subst e; rw [isWord_lt] at hc; cases hc
      simp [stripPrefix, this]
  | cons a w' ih =>
    have ha := hw a (by simp)
    cases n with
    | nil =>
      cases rest with
      | nil => rfl
      | cons d r =>
        simp only [Follow] at hf
        have : (a == d) = false := by
          simp only [beq_eq_false_iff_ne, ne_eq]; intro e; subst e; rw [ha] at hf; cases hf.1
        simp [stripPrefix, this]
    | cons c n' =>
      simp only [List.cons_append, stripPrefix]
      by_cases hac : a = c
      · have : (a == c) = true := by simp [hac]
        rw [this]; simp only [if_true]
        exact ih n' (fun x hx => hw x (by simp [hx])) (fun x hx => hn x (by simp [hx]))
      · have : (a == c) = false := by simp [hac]
        rw [this]; simp

/-- `Map<`, `Tuple<`, `Vec<` are not found at the head of an identifier -/
theorem atom_lt_word (w n rest : Bytes) (hw : AllWord w) (hn : AllWord n) (hnn : n ≠ []) (hf : Follow rest) :
    atom (w ++ [60]) (n ++ rest) = none := by
  cases n with
  | nil => exact absurd rfl hnn
  | cons c n' =>
    rw [List.cons_append, atom_nonws _ c _ (word_not_ws c (hn c (by simp))), ← List.cons_append]
    exact stripPrefix_lt w _ rest hw hn hf

theorem atom_miss (lit : Bytes) (c : UInt8) (r : Bytes) (hc : isWS c = false) (hm : mismatch lit [c] = true) :
    atom lit (c :: r) = none := by
  rw [atom_nonws _ c _ hc]; exact stripPrefix_mismatch lit [c] r hm

theorem atom_hit (lit : Bytes) (c : UInt8) (l r : Bytes) (he : lit = c :: l) (hc : isWS c = false) :
    atom lit (lit ++ r) = some r := by
  subst he; rw [List.cons_append, atom_nonws _ c _ hc, ← List.cons_append]; exact stripPrefix_append _ _

theorem parseMap_none (f : Nat) (inp : Bytes) (h : atom kwMap inp = none) : parseMap f inp = none := by
  cases f <;> simp [parseMap, h]
theorem parseVec_none (f : Nat) (inp : Bytes) (h : atom kwVec inp = none) : parseVec f inp = none := by
  cases f <;> simp [parseVec, h]
theorem parseTuple_none (f : Nat) (inp : Bytes) (h : atom kwTuple inp = none) : parseTuple f inp = none := by
  cases f <;> simp [parseTuple, h]

theorem keywords_heads : keywords.all (fun k => mismatch k [62] && mismatch k [77] && mismatch k [84] && mismatch k [86]) = true := by decide

/-- no basic type starts with `c`, for the four characters that start something else -/
theorem firstKeyword_miss (c : UInt8) (r : Bytes) (hc : c = 62 ∨ c = 77 ∨ c = 84 ∨ c = 86) :
    firstKeyword keywords 0 (c :: r) = none := by
  apply firstKeyword_none
  intro k hk
  have := List.all_eq_true.mp keywords_heads k hk
  simp only [Bool.and_eq_true] at this
  have hws : isWS c = false := by rcases hc with h | h | h | h <;> subst h <;> decide
  have hm : mismatch k [c] = true := by
    rcases hc with h | h | h | h <;> subst h
    · exact this.1.1.1
    · exact this.1.1.2
    · exact this.1.2
    · exact this.2
  exact keyword_mismatch k [c] r c [] rfl hws hm

/-- nothing that is a type starts with `>` -/
theorem parseT_gt (f : Nat) (r : Bytes) : parseT f (62 :: r) = none := by
  cases f with
  | zero => rfl
  | succ f =>
    simp only [parseT, firstKeyword_miss 62 r (Or.inl rfl)]
    rw [parseMap_none f _ (atom_miss kwMap 62 r (by decide) (by decide)),
        parseTuple_none f _ (atom_miss kwTuple 62 r (by decide) (by decide)),
        parseVec_none f _ (atom_miss kwVec 62 r (by decide) (by decide))]
    simp [typeIdent, skipWS, isWS, isAlphaU]

end QiVerif.C18
