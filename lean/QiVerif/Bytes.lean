/-
  Bytes, little/big-endian integers and the `io.Reader` stream model shared by
  every decoder model.  Core Lean only (the driver links against this file).
-/
namespace QiVerif

abbrev Bytes := List UInt8

/-- Outcome classes shared by all decoder models. -/
inductive Err where
  | eof      -- io.EOF forwarded (nothing was read)
  | err      -- any other error value
  | panic    -- a Go run-time panic / fatal error
  | hang     -- resources (stack depth / loop iterations) beyond any multiple of the input length
  deriving Repr, DecidableEq, Inhabited

abbrev Res (α : Type) := Except Err α

def Res.isError {α} : Res α → Bool
  | .ok _ => false
  | .error _ => true

/-! ### fixed-width integers -/

def le16 (n : Nat) : Bytes := [UInt8.ofNat n, UInt8.ofNat (n / 256)]
def le32 (n : Nat) : Bytes :=
  [UInt8.ofNat n, UInt8.ofNat (n / 256), UInt8.ofNat (n / 65536), UInt8.ofNat (n / 16777216)]
def le64 (n : Nat) : Bytes := le32 (n % 4294967296) ++ le32 (n / 4294967296)
def be32 (n : Nat) : Bytes :=
  [UInt8.ofNat (n / 16777216), UInt8.ofNat (n / 65536), UInt8.ofNat (n / 256), UInt8.ofNat n]

def fromLE16 : Bytes → Nat
  | [a, b] => a.toNat + 256 * b.toNat
  | _ => 0
def fromLE32 : Bytes → Nat
  | [a, b, c, d] => a.toNat + 256 * b.toNat + 65536 * c.toNat + 16777216 * d.toNat
  | _ => 0
def fromBE32 : Bytes → Nat
  | [a, b, c, d] => d.toNat + 256 * c.toNat + 65536 * b.toNat + 16777216 * a.toNat
  | _ => 0
def fromLE64 (bs : Bytes) : Nat := fromLE32 (bs.take 4) + 4294967296 * fromLE32 (bs.drop 4)

@[simp] theorem le16_length (n : Nat) : (le16 n).length = 2 := rfl
@[simp] theorem le32_length (n : Nat) : (le32 n).length = 4 := rfl
@[simp] theorem be32_length (n : Nat) : (be32 n).length = 4 := rfl
@[simp] theorem le64_length (n : Nat) : (le64 n).length = 8 := rfl

theorem u8_toNat_ofNat (n : Nat) : (UInt8.ofNat n).toNat = n % 256 := by
  simp [UInt8.toNat_ofNat']

theorem fromLE16_le16 (n : Nat) (h : n < 65536) : fromLE16 (le16 n) = n := by
  simp only [le16, fromLE16, u8_toNat_ofNat]; omega

theorem fromLE32_le32 (n : Nat) (h : n < 4294967296) : fromLE32 (le32 n) = n := by
  simp only [le32, fromLE32, u8_toNat_ofNat]; omega

theorem fromBE32_be32 (n : Nat) (h : n < 4294967296) : fromBE32 (be32 n) = n := by
  simp only [be32, fromBE32, u8_toNat_ofNat]; omega

theorem fromLE64_le64 (n : Nat) (h : n < 18446744073709551616) : fromLE64 (le64 n) = n := by
  have h1 : n % 4294967296 < 4294967296 := Nat.mod_lt _ (by decide)
  have h2 : n / 4294967296 < 4294967296 := by omega
  unfold fromLE64 le64
  have e1 : (le32 (n % 4294967296) ++ le32 (n / 4294967296)).take 4 = le32 (n % 4294967296) := by
    simp [le32]
  have e2 : (le32 (n % 4294967296) ++ le32 (n / 4294967296)).drop 4 = le32 (n / 4294967296) := by
    simp [le32]
  rw [e1, e2, fromLE32_le32 _ h1, fromLE32_le32 _ h2]; omega

theorem fromLE32_lt (bs : Bytes) : fromLE32 bs < 4294967296 := by
  unfold fromLE32
  split
  · rename_i a b c d
    have := a.toNat_lt; have := b.toNat_lt; have := c.toNat_lt; have := d.toNat_lt
    omega
  · decide

theorem u8_ofNat_toNat (a : UInt8) : UInt8.ofNat a.toNat = a := by
  simp

/-- every 4-byte string is the little-endian encoding of the number it decodes to -/
theorem le32_fromLE32 (a b c d : UInt8) : le32 (fromLE32 [a, b, c, d]) = [a, b, c, d] := by
  have ha := a.toNat_lt; have hb := b.toNat_lt; have hc := c.toNat_lt; have hd := d.toNat_lt
  simp only [le32, fromLE32]
  have e0 : UInt8.ofNat (a.toNat + 256 * b.toNat + 65536 * c.toNat + 16777216 * d.toNat) = a := by
    apply UInt8.toNat_inj.mp; rw [u8_toNat_ofNat]; omega
  have e1 : UInt8.ofNat ((a.toNat + 256 * b.toNat + 65536 * c.toNat + 16777216 * d.toNat) / 256) = b := by
    apply UInt8.toNat_inj.mp; rw [u8_toNat_ofNat]; omega
  have e2 : UInt8.ofNat ((a.toNat + 256 * b.toNat + 65536 * c.toNat + 16777216 * d.toNat) / 65536) = c := by
    apply UInt8.toNat_inj.mp; rw [u8_toNat_ofNat]; omega
  have e3 : UInt8.ofNat ((a.toNat + 256 * b.toNat + 65536 * c.toNat + 16777216 * d.toNat) / 16777216) = d := by
    apply UInt8.toNat_inj.mp; rw [u8_toNat_ofNat]; omega
  rw [e0, e1, e2, e3]

/-! ### flat readers: the decoders only ever touch the reader through `ReadN`,
    so over a flat byte string each primitive is "take n or fail". -/

/-- `basic.ReadN` over a flat, fully available byte string followed by EOF:
    `n = 0` succeeds, no bytes at all is `io.EOF`, too few bytes is an error. -/
def takeN (n : Nat) (bs : Bytes) : Res (Bytes × Bytes) :=
  if n = 0 then .ok ([], bs)
  else if bs.length = 0 then .error .eof
  else if bs.length < n then .error .err
  else .ok (bs.take n, bs.drop n)

theorem takeN_append (n : Nat) (a r : Bytes) (h : a.length = n) : takeN n (a ++ r) = .ok (a, r) := by
  subst h
  unfold takeN
  by_cases hn : a.length = 0
  · have : a = [] := List.length_eq_zero_iff.mp hn
    subst this; simp
  · have h1 : ¬ ((a ++ r).length = 0) := by rw [List.length_append]; omega
    have h2 : ¬ (a ++ r).length < a.length := by rw [List.length_append]; omega
    simp only [hn, h1, h2, if_false]
    simp

theorem takeN_short (n : Nat) (bs : Bytes) (h : bs.length < n) : (takeN n bs).isError = true := by
  unfold takeN
  have hn : n ≠ 0 := by omega
  by_cases h0 : bs.length = 0 <;> simp [hn, h0, h, Res.isError]

theorem takeN_ok (n : Nat) (bs a r : Bytes) (h : takeN n bs = .ok (a, r)) :
    bs = a ++ r ∧ a.length = n := by
  unfold takeN at h
  split at h
  · cases h; simp_all
  · split at h
    · cases h
    · split at h
      · cases h
      · cases h; constructor
        · simp
        · simp; omega

/-! ### the `io.Reader` model -/

/-- One `Read` worth of behaviour of the underlying reader.  `data bs eof`: the
    reader has `bs` available now; when the last of them is handed out the call
    also reports end-of-stream iff `eof`.  `fail`: the reader returns an error
    (persistently).  `dataErr bs`: the reader has `bs` available and the call that hands out
    the last of them also reports an error that is not end-of-stream — once: the reader goes
    on with what follows, as if nothing had happened. -/
inductive Chunk where
  | data (bs : Bytes) (eof : Bool)
  | fail
  | dataErr (bs : Bytes)
  deriving Repr, DecidableEq

abbrev Stream := List Chunk

/-- `basic.ReadN(r, buf, need)`, the loop transcribed.  `acc` is `buf[:size]`. -/
def readN : Nat → Stream → Bytes → Res (Bytes × Stream)
  | need, s, acc =>
    if need = 0 then .ok (acc, s) else
    match s with
    | [] => if acc.length = 0 then .error .eof else .error .err   -- (0, EOF)
    | .fail :: _ => .error .err
    | .dataErr bs :: rest =>
      -- an error that is not EOF ends the loop, whatever came with it (`size += read` first, then the
      -- last branch); a call that asks for less than is there gets its bytes and no error yet
      if need < bs.length then .ok (acc ++ bs.take need, .dataErr (bs.drop need) :: rest)
      else .error .err
    | .data bs e :: rest =>
      if bs.length = 0 then
        -- (0, nil) is "no progress"; (0, EOF) is EOF when nothing was read so far
        if e && acc.length = 0 then .error .eof else .error .err
      else if bs.length < need then
        if e then .error .err                       -- EOF with size < length
        else readN (need - bs.length) rest (acc ++ bs)
      else if bs.length = need then
        .ok (acc ++ bs, if e then [] else rest)     -- (n, EOF) with size = length is fine
      else
        .ok (acc ++ bs.take need, .data (bs.drop need) e :: rest)

/-- the bytes a well-formed stream will deliver -/
def flat : Stream → Bytes
  | [] => []
  | .fail :: _ => []
  | .dataErr _ :: _ => []
  | .data bs e :: rest => if e then bs else bs ++ flat rest

/-- well-formed fragmentation: non-empty data chunks, no failure, EOF flag (if
    any) only on the last chunk. -/
def WFStream : Stream → Prop
  | [] => True
  | .fail :: _ => False
  | .dataErr _ :: _ => False
  | .data bs e :: rest => bs ≠ [] ∧ (e = true → rest = []) ∧ WFStream rest

theorem readN_chunks (need : Nat) (s : Stream) (acc : Bytes) (hwf : WFStream s)
    (hlen : need ≤ (flat s).length) :
    ∃ s', readN need s acc = .ok (acc ++ (flat s).take need, s') ∧ WFStream s' ∧
          flat s' = (flat s).drop need := by
  induction s generalizing need acc with
  | nil =>
    simp [flat] at hlen; subst hlen
    exact ⟨[], by simp [readN, flat], trivial, by simp [flat]⟩
  | cons c rest ih =>
    cases c with
    | fail => exact absurd hwf (by simp [WFStream])
    | dataErr bs => exact absurd hwf (by simp [WFStream])
    | data bs e =>
      obtain ⟨hne, hlast, hrest⟩ := hwf
      have hpos : bs.length ≠ 0 := by
        intro h; exact hne (List.length_eq_zero_iff.mp h)
      by_cases hz : need = 0
      · subst hz
        exact ⟨.data bs e :: rest, by simp [readN], ⟨hne, hlast, hrest⟩, by simp⟩
      · unfold readN
        simp only [hz, if_false, hpos]
        by_cases h1 : bs.length < need
        · simp only [h1, if_true]
          cases e with
          | true =>
            simp [flat] at hlen; omega
          | false =>
            simp only [flat, Bool.false_eq_true, if_false] at hlen ⊢
            have hl : need - bs.length ≤ (flat rest).length := by
              simp at hlen; omega
            obtain ⟨s', h1', h2', h3'⟩ := ih (need - bs.length) (acc ++ bs) hrest hl
            refine ⟨s', ?_, h2', ?_⟩
            · rw [h1']
              congr 2
              rw [List.take_append]
              have : List.take need bs = bs := List.take_of_length_le (by omega)
              simp [this]
            · rw [h3', List.drop_append]
              have : List.drop need bs = [] := List.drop_of_length_le (by omega)
              simp [this]
        · simp only [h1, if_false]
          by_cases h2 : bs.length = need
          · simp only [h2, if_true]
            cases e with
            | true =>
              refine ⟨[], ?_, trivial, ?_⟩
              · simp [flat, ← h2]
              · simp [flat, ← h2]
            | false =>
              refine ⟨rest, ?_, hrest, ?_⟩
              · simp [flat, ← h2]
              · simp [flat, ← h2]
          · simp only [h2, if_false]
            have hlt : need < bs.length := by omega
            refine ⟨.data (bs.drop need) e :: rest, ?_, ?_, ?_⟩
            · cases e <;> simp [flat, List.take_append_of_le_length (Nat.le_of_lt hlt)]
            · refine ⟨?_, hlast, hrest⟩
              intro h; have := congrArg List.length h; simp at this; omega
            · cases e <;> simp [flat, List.drop_append_of_le_length (Nat.le_of_lt hlt)]

theorem readN_short (need : Nat) (s : Stream) (acc : Bytes) (hwf : WFStream s)
    (hlen : (flat s).length < need) : (readN need s acc).isError = true := by
  induction s generalizing need acc with
  | nil => unfold readN; have : need ≠ 0 := by omega
           by_cases h : acc.length = 0 <;> simp [this, h, Res.isError]
  | cons c rest ih =>
    cases c with
    | fail => exact absurd hwf (by simp [WFStream])
    | dataErr bs => exact absurd hwf (by simp [WFStream])
    | data bs e =>
      obtain ⟨hne, hlast, hrest⟩ := hwf
      have hpos : bs.length ≠ 0 := by
        intro h; exact hne (List.length_eq_zero_iff.mp h)
      have hz : need ≠ 0 := by omega
      unfold readN
      simp only [hz, if_false, hpos]
      cases e with
      | true =>
        simp [flat] at hlen
        simp [hlen, Res.isError]
      | false =>
        simp [flat] at hlen
        have h1 : bs.length < need := by omega
        simp only [h1, if_true, Bool.false_eq_true, if_false]
        exact ih _ _ hrest (by omega)

end QiVerif
