#!/bin/sh
# usage: seedq.sh <id> <pkg dir> <test regex> <name under seeded/> <check ids…>
# Queues one seeded change: seed_t.sh (confirm in /tmp/seed/<id>, then mutate.sh with the named checks) runs under a lock,
# so that only one change at a time is applied to /repo.  The summary lands in /tmp/mut/res-<id>.out, the log in /tmp/mut/<id>.log.
mkdir -p /tmp/mut
id=$1
( flock /tmp/mut/lock sh -c "cd /verif && ./seed_t.sh $* > /tmp/mut/$id.log 2>&1; echo '== $id'; tail -7 /tmp/mut/$id.log" > /tmp/mut/res-$id.out 2>&1 & )
echo queued $id
