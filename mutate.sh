#!/bin/sh
# usage: mutate.sh <patch.diff> <check ids…>
# Applies a patch to /repo's working tree, runs the given checks (evidence redirected to a
# scratch directory so that committed evidence always comes from the unchanged tree), reverts.
patch=$1; shift
cd "$(dirname "$0")"
git -C /repo apply "$patch" || { echo "patch does not apply"; exit 2; }
export VERIF_EVIDENCE_DIR=/tmp/qiverif-mut-evidence
for id in "$@"; do ./check $id; echo "exit=$?"; done
git -C /repo checkout -- . && git -C /repo status --short
