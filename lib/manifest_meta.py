BASELINE_OFF = "cd /repo && go test -mod=mod -json -vet=off -count=1 -timeout 25m ./..."
HOOK_COMMITS = []
NOTES = ("The checks of C06, C10-C17 and C19 also hold the lock-discipline obligation: every function under bus/ that touches a mutex is translated (harness/cmd/extract/locks.go) into a control skeleton, and Tie/Locks.lean shows by evaluation of a checker proved sound (Props/Locks.lean safe_sound, acts_sound) that none returns with a mutex held, locks one it holds, or — endPoint.dispatch apart — sends or waits under one. "
         "They also hold the lock-order obligation: the same functions and what they may call are translated with mutexes numbered for the whole of bus/ and calls resolved (harness/cmd/extract/lockorder.go); Tie/LockOrder.lean checks that the relation 'asked for while held', directly or through any chain of calls, has a rank under which every edge goes upwards, and Props/LockOrder.lean (evs_sound, asks_edges, ranked_no_deadlock) proves that goroutines waiting for mutexes along such chains are never deadlocked. "
         "Every check: regenerate facts from /repo, lake build theorems+ties, audit axioms, run real code vs Lean model "
         "driver on generated ops, compare. See DESIGN.md.")
NOT_APPLICABLE = {}

CHECKS = {
    "C01": {
        "text": "Lean 4 theorems over an explicit io.Reader model: header round trip for every valid header, equality with the "
                "documented byte layout, lossless self-delimiting reads for every finite message sequence under every "
                "fragmentation (incl. data+EOF), refusal after exactly 28 bytes; the model is tied to message.go/basic.go by "
                "regenerated field/step tables (kernel-checked equalities) and by a differential run of Message.Read/Write "
                "against the compiled model on scripted streams; the writing side against any io.Writer (Model/WriteN.lean, "
                "Props/C01Write.lean: whatever the writer takes and reports, it holds a prefix of the message; success means "
                "exactly the message), compared on writers that take the message in pieces",
        "note": "trusts the Lean kernel, the go/ast extractor, the harness' scripted reader / writer and the hand transcription of "
                "basic.ReadN's and basic.WriteN's loops (tied by their extracted branch lists and by differential runs incl. malformed "
                "streams, short writes, errors with data)",
        "technique": "Lean 4 proof (induction over the chunk list / message list) + regenerated tie lemmas + differential correspondence",
    },
    "C20": {
        "text": "Lean 4 theorem by recursion over the (nested) target type: for every compatible source/target pair and every "
                "value, conversion succeeds, is well typed and converting back is the exact inverse (hence injective: every "
                "element, key and field preserved); kind clashes are refused at any depth; tied to conversion.go by the "
                "regenerated case table/call lists of convertFrom, convertSlice/Map/Struct and AsInt64 and by differential "
                "runs of ConvertFrom on reflect-built types against the compiled model",
        "note": "trusts the Lean kernel, the extractor, reflect's Set*/truncation semantics as modelled (wrapS/wrapU), the "
                "FloatExact hypothesis; narrowing/sign changes are modelled and compared but not part of the claim",
        "technique": "Lean 4 proof (mutual structural recursion over nested GoType) + regenerated tie lemmas + differential correspondence",
    },
    "C19": {
        "text": "Lean 4 invariant proof over all schedules of any number of goroutines running the program that is compiled "
                "from the token list regenerated from Session.client (the model is a translation of the function): no "
                "(R)Unlock of an unlocked RWMutex, no deadlock (for Go's RWMutex: a writer that waits keeps new readers out; a "
                "program that re-enters the read lock is refuted), every returned client is the one stored for the address; "
                "the pinned tree's program is refuted by an explicit 2-goroutine schedule; the real Session is stressed in a "
                "child process and the live connections per endpoint are counted",
        "note": "trusts the Lean kernel, the token extractor (lock/map/return operations in source order), the RWMutex "
                "model; network behaviour and proxies actually working are observed by the stress run only",
        "technique": "Lean 4 proof (inductive invariant indexed by program counter, all thread counts and schedules) + regenerated program tie + stress correspondence",
    },
    "C16": {
        "text": "Lean 4 invariant over all operation histories of a model of serviceImpl (objects, mailboxes, removed "
                "instances): ids unique among live objects, termination hook exactly once per removed instance and never "
                "for a live one, every message to an identifier no live object holds is answered with an error and "
                "changes nothing, removed instances' counters are append-only, removal leaves other objects untouched; "
                "Add with its real grain (two critical sections, the activation between them outside the lock: Model/ServiceAdd.lean, "
                "Props/C16Add.lean): the invariant holds whatever runs in between, the pending identifier is refused, the second half "
                "touches no other object, and the two halves with nothing in between are the one-step Add; "
                "tied to service.go by regenerated lock/map operation sequences and exact differential runs against a "
                "real server, with objects whose activation waits for the harness; the objects that live on the client's side of a service (bus/service_reference.go) have a model of their own (Model/ClientObjects.lean, Props/C16Client.lean: identifiers unique and never reused on every interleaving of two-part additions, removals and terminations, the hook at most once, the second removal refused; tied token by token, Tie/ClientService.lean) and are driven by the same operations (identifiers, a second removal, removals at the same moment: the defect c6afcd6 was found and repaired there); Receive against Remove with the grain of the code (senders run the program compiled from the regenerated tokens of Receive, bounded mailbox, Go RWMutex with its waiting writer): no deadlock on any schedule, a message after the removal is refused; the order RUnlock-after-send is refuted",
        "note": "trusts the Lean kernel, the flow extractor, the harness' instrumented PingPong objects; sequential histories, "
                "concurrent removals and removals of busy objects in the correspondence run",
        "technique": "Lean 4 proof (invariant by induction over operation histories) + regenerated tie lemmas + differential correspondence",
    },
    "C09": {
        "text": "Lean 4 theorem print_parse: for every type of the grammar (arbitrary nesting, any identifier/template names) "
                "the combinator semantics run on the grammar regenerated from signature.go returns exactly that type for its "
                "printed signature, within the stack depth Parse allows (explicit fuel bound); printing is injective; the "
                "grammar value is tied to init() by rfl, callbacks and post-checks by regenerated assertion lists; random / "
                "near-miss / white-space / random-byte inputs are compared with the real parser incl. IDL name and Go type; "
                "and the other direction, for every byte string (Props/C09Sound.lean): the parser answers with a type or an error "
                "(parse_total: no callback meets a node it cannot handle, the call depth suffices), whatever it accepts is the printed "
                "form of a type of the grammar up to the white space the tokeniser skips (parse_sound), parsing the printed form of "
                "an accepted input gives the same type (fixed_point)",
        "note": "trusts the Lean kernel, the transcription of goparsec's combinators and of the two regular expressions, the "
                "grammar translator; Type() panics on two classes of accepted signatures (known findings)",
        "technique": "Lean 4 proof (mutual structural induction over the signature AST on a deep-embedded PEG interpreter) + grammar regenerated and tied by rfl + differential correspondence",
    },
    "C02": {
        "text": "Lean 4 theorems by mutual structural recursion over value trees and typed data: NewValue on the encoding of "
                "any well-formed value (any nesting, opaque values of any grammar signature, dynamic values nested in "
                "lists/maps/structs) returns the value, leaves exactly what followed, and re-encoding is identical; uses "
                "the proven signature parser round trip (C09) for nested signatures; the dispatch table, limits and every "
                "TypeReader are tied to value.go/reader.go by regenerated tables; differential runs against NewValue and "
                "MakeReader",
        "note": "trusts the Lean kernel, extractor, harness encoder (itself compared with the Lean statement of the documented "
                "layout); 'o'/'X' inside opaque signatures and m-of-m are outside the proven domain",
        "technique": "Lean 4 proof (mutual structural recursion, fuel-parametric) + regenerated tie lemmas + differential correspondence",
    },
    "C03": {
        "text": "Lean 4 theorems: with the regenerated kind table of qiEncoder.value the reflection encoder equals the "
                "documented layout D for every signature and typed value; the signature-driven reader returns exactly "
                "those bytes; the reflection decoder (and the generated Unmarshal semantics) recover the value; a missing "
                "case is shown to break the equality (the pinned tree's defect); differential runs of Encode / Reader / "
                "Decode on reflect-built Go values",
        "note": "trusts the Lean kernel, the extractor's case tables, reflect's behaviour as modelled (kind switch, SetLen, "
                "MakeSlice limits); Go types are built with the generator's mapping",
        "technique": "Lean 4 proof (mutual structural recursion over typed values) + regenerated kind tables tied by decide + differential correspondence",
    },
    "C08": {
        "text": "Lean 4: for each decoder family a stability theorem (a successful decode is unchanged by more input and more "
                "stack) proved for all inputs by induction on the stack depth; together with the round-trip theorems this "
                "gives, for every valid encoding and every cut position, an error — for the signature-driven reader, "
                "NewValue, the reflection decoder, the generated readers / capability map, and Message.Read under any "
                "fragmentation; every cut position of generated encodings is also run against the real decoders",
        "note": "trusts the Lean kernel, the models of the decoders (tied as under C01-C03); generated readers are modelled "
                "by the typed decoder with the generated configuration, compared on MetaObject, ObjectReference, ServiceInfo",
        "technique": "Lean 4 proof (stability by induction on fuel for all inputs + round trip => prefix rejection) + differential correspondence at every cut",
    },
    "C07": {
        "text": "partial: Lean 4 theorems for every input — limits precede allocations (ReadString, reflection decoder and "
                "capability map counts <= 4096, negative sizes refused, an oversized message costs exactly its 28 header "
                "bytes, accepted payloads <= limit), the signature-driven reader returns exactly the bytes it consumed "
                "(result never larger than the input, by induction on the stack depth for all inputs); refutation "
                "witnesses for the places where the code violates the property (generated readers allocate the wire count, "
                "zero-size element loops); every entry point is additionally run on hostile inputs in child processes with "
                "memory/time measurement and compared with the model's outcome class",
        "note": "real time/memory are measured, not proved; that the signature parser answers every byte string with a type or an "
                "error (no callback panic, the call depth it reckons with suffices) is proved (Props/C09Sound.parse_total), for the "
                "IDL parser it is sampled; three open known findings (exponential signature parser, generated readers, zero-size loops)",
        "technique": "Lean 4 proof (bounds and exactness for all inputs; counter-example witnesses) + regenerated tie lemmas + child-process resource measurement",
    },
    "C17": {
        "text": "Lean 4 invariant over all action sequences of the handler-table machine (= all interleavings of the "
                "critical sections): a handler is in exactly one of table / pending asynchronous close / done; callback and "
                "queue close ran 0 times for the first two and exactly once for the last; dispatch only touches handlers "
                "in the table (no send after close); removal of an unknown id is an error and changes nothing; a slot index "
                "is only handed out when free; after shutdown plus the scheduled closes nothing is left open; the machine "
                "is tied to endpoint.go by regenerated operation sequences and by exact sequential + racing runs",
        "note": "trusts the Lean kernel, the flow extractor, Go's mutex/channel semantics as modelled (one critical section = "
                "one action); re-entrant closers are excluded by the API contract",
        "technique": "Lean 4 proof (counting invariant by induction over action sequences) + regenerated tie lemmas + exact and racing correspondence runs",
    },
    "C10": {
        "text": "Lean 4 theorems: Send issues one Write holding the whole frame; for every interleaving of the senders' "
                "sequences (inductive relation = every schedule of whole Write calls) and every fragmentation by the "
                "transport the reader returns exactly the interleaved sequence (corollary of the C01 stream theorem); "
                "every sender's sequence is a sublist of it and the length is the number sent; dispatch acts pointwise "
                "on the handler table, so a staying handler with room receives exactly the filter of the arrival order; "
                "the harness's acceptor is proved sound w.r.t. the inductive relation; tied by regenerated flows of "
                "Send / Message.Write / stream wrappers / process and by concurrent runs over five transports",
        "note": "atomicity of one transport Write is an assumption about the Go runtime (stated in the evidence); schedules are sampled, "
                "the theorem covers all of them at the granularity of whole Write calls",
        "technique": "Lean 4 proof (interleaving induction, corollary of the C01 round trip, pointwise dispatch) + regenerated tie lemmas + concurrent correspondence runs on real transports",
    },
    "C11": {
        "text": "Lean 4 invariant over all action sequences of the client machine (Call = register / Write in progress / "
                "select / returned; Subscribe; OnDisconnect; reply and event dispatch; read failure; local close; write "
                "failure; asynchronous closes) built on the C17 handler table: an outcome is final; a call on a closed or "
                "write-dead stream fails at once; from every reachable state, after the loss and the scheduled closes no "
                "call is left waiting, a call still inside Write returns when the Write does, every disconnect callback "
                "registered before ran exactly once and every subscription channel is closed; a reply dispatched before "
                "Send returned is what the call returns; tied by regenerated flows of client.go / endpoint.go and by "
                "scripted fault runs on the real client",
        "note": "time bounds are measured, not proved; the model's atomic actions are the critical sections and channel operations of the real code",
        "technique": "Lean 4 proof (invariant by induction over action sequences, progress after loss) + regenerated tie lemmas + scripted fault-injection correspondence and concurrent storms",
    },
    "C05": {
        "text": "Lean 4 theorems about a model of the generated code (Model/Gen.lean): the generated Marshal code writes the "
                "documented serialization of every typed value (generated_marshal_is_doc, via the scalar table tied to the "
                "constructors and to type/basic's widths), the generated Unmarshal code inverts it, the arguments of a call made "
                "through the generated proxy (reflection encoder) arrive at the generated stub equal (call_arguments_arrive), the "
                "returned value reaches the caller equal (call_result_returns), a signal's payload reaches a generated subscriber "
                "equal for one and for several parameters, a property round-trips through the signature-checked accessors and a "
                "value of another type is refused; the Go names of up to a hundred actions of an object are pairwise distinct "
                "(registerName_fresh, registerAll_nodup) and never collide with a method of the embedded proxy "
                "(clean_method_not_embedded); tied by the regenerated constructor table, basic widths and the shapes of 33 "
                "statement generators; validated by compiling and running generated packages: real server, real session, "
                "generated implementor, independent codec for the values",
        "note": "partial: 'the generated code compiles' is translation validation by sampling (go build of every generated package), "
                "not a theorem; identifier hygiene and a few types (obj, unknown, nothing as parameters, non-comparable map keys, "
                "properties of type any or without parameter) are listed findings",
        "technique": "Lean 4 proof (generated marshal = documented layout; composition with the C03 codec lemmas) + regenerated tie lemmas + translation validation: generated packages compiled and run against the model's pipeline",
    },
    "C06": {
        "text": "Lean 4 invariant over all sequences of connections, frames (any type, ids, payload bytes) and mailbox steps, "
                "for every authenticator: a connection is marked authenticated only after an authenticate request of its "
                "own whose payload parses (ReadCapabilityMap + NewValue model) to string-or-absent credentials the "
                "authenticator accepts; a frame reaches a service other than 0 only on an authenticated connection; an "
                "unauthenticated frame for another service is refused and the connection closed; only auth_user/auth_token "
                "count (forged state, wrong types, garbage never authenticate); other connections are untouched; tied by "
                "regenerated firewall / handle / router / service-0 flows and constants, and by exact + burst runs on a real server",
        "note": "the unsynchronised access to the capability map by two goroutines is modelled as atomic (see assumptions)",
        "technique": "Lean 4 proof (history invariant by induction over action sequences) + regenerated tie lemmas + exact and burst correspondence runs",
    },
    "C04": {
        "text": "Lean 4 invariant over all action sequences of the call machine (any number of clients and connections; "
                "request, execution and response of every call interleave freely; frames of other kinds; uninterpreted "
                "method semantics): ids of distinct calls differ (one counter), a response only matches its own caller's "
                "handler, a returned result is the method's result on the call's own argument with exactly one execution, "
                "executions and responses never exceed one, an error outcome means nothing ran, a post to an existing "
                "method is never answered, frames that are neither call nor post run nothing, no state is stuck; the two "
                "repaired defects are kept as refutation theorems of the old choices; tied by regenerated client / "
                "dispatch / stub / generator / channel facts and by exact server-side, exact client-side and concurrent runs; "
                "calls the server forwards to an object hosted by a client (a goroutine per call that calls the host and answers "
                "later, in any order) are modelled as two call machines and their link (Model/Forward.lean) and shown to satisfy "
                "the same invariant (Props/C04Forward.forwarded_call_is_a_call, forwarded_own_answer)",
        "note": "exactly-once delivery of frames is C01/C10's statement and an assumption here; a post to a missing target is "
                "answered with an error frame (known finding)",
        "technique": "Lean 4 proof (per-call stage invariant by induction over action sequences, refutation witnesses) + regenerated tie lemmas + exact and concurrent correspondence runs",
    },
    "C13": {
        "level_note": "partial",
        "text": "Lean 4 invariants over all action sequences of the per-connection subscription machine (local handler, "
                "count under the subscription lock, remote (un)registration with its reply awaited, server table entry, "
                "FIFO log of everything the server puts on the connection, in-order dispatch, handler removal): what a "
                "subscriber received is exactly the event frames of a segment of the log (hence strictly increasing "
                "emission indices, each with the emitted payload, nothing of other signals); every event emitted between "
                "its acknowledgement and its cancel request was put on its connection and, once dispatched before the "
                "cancel request, received; after cancel the handler can be removed and nothing is added afterwards; no "
                "event after the unregistration was handled; removing one user of the server's table keeps all others; "
                "a registration that fails is a step of the machine (count and lock given back, the next subscriber "
                "registers again); the loop of UpdateSignal over the copied users is modelled with the sends' answers as "
                "parameters (every copied user is sent to, whatever fails); "
                "the two repaired defects are kept as refutation theorems of the old choices",
        "note": "partial: the clause 'no event after the acknowledged removal' is false of the code when an emission had copied the users "
                "before (Props/C13Emit.lean models UpdateSignal with its real grain: refutation event_after_acknowledgement = known finding; "
                "what holds on every schedule: at most one such event, of the emission open at the acknowledgement); the window's end is the "
                "dispatch position at the cancel request",
        "technique": "Lean 4 proof (log-segment and registration invariants by induction over action sequences, refutation witnesses) + regenerated tie lemmas + scripted hold/release correspondence and concurrent storms",
    },
    "C14": {
        "text": "Lean 4 theorems about the property register, for every declaration set, validator and operation sequence: "
                "every stored value — hence every value read — has the declared type; a refused write (unknown property, "
                "wrong type, name of another kind, unknown id, validator) changes nothing and emits nothing; an accepted "
                "write is what the next read returns and emits exactly one change event carrying it, other properties "
                "untouched; the same for service-side updates; for concurrent writers (checks / save / notify interleaved "
                "arbitrarily) the register is at every moment the committed writes in the order of their save steps; tied "
                "by the regenerated flows of SetProperty / Property / saveProperty / UpdateProperty / UpdateSignal and the generated "
                "callback, and by exact and concurrent runs on two real objects; the announcement reaches every subscriber of "
                "the copy whatever the sends to the others answer (Props/C13Loop.lean; scenarios with a subscriber that leaves "
                "or is lost during an announcement)",
        "note": "the order of change events of concurrent writers may differ from the order of their saves (events are sent after the lock is released): not part of the statement",
        "technique": "Lean 4 proof (typing invariant, refinement of the split machine to the committed-write log) + regenerated tie lemmas + exact correspondence and linearizability-checked concurrent histories",
    },
    "C15": {
        "text": "Lean 4 invariant over all operation sequences of the directory machine (maps keyed by id as in the code): ids "
                "are handed out strictly increasing from a counter that never decreases and every id in use is at most the "
                "counter (never reused); a service is staging or ready, not both; a name is held by at most one registered "
                "service; list and lookup show exactly the ready services (staging ones invisible); an accepted update "
                "keeps name and id and touches nothing else; the events about a service are nothing, its serviceAdded, or "
                "its serviceAdded then its serviceRemoved, with its own name; every method is one critical section "
                "(regenerated), so the order of critical sections linearizes any concurrent history",
        "note": "linearizability of concurrent histories rests on the regenerated lock structure (atomic steps) and is exercised by the brute-force acceptor on recorded histories",
        "technique": "Lean 4 proof (registry invariant by induction over operation sequences) + regenerated tie lemmas (lock structure, check order) + exact sequential correspondence and linearizability-checked concurrent histories",
    },
    "C12": {
        "text": "Lean 4 theorem: for every sequence of subscription requests (registrations with repeated or foreign ids, "
                "unregistrations of unknown ids, disconnects) from any number of connections, the goroutine of the object "
                "never locks a mutex it already holds (invariant: no lock held between requests, handler slots of "
                "registered users pairwise distinct and fresh) — with the pre-repair addSignalUser the second registration "
                "of an id is stuck (refutation theorem); a duplicate is refused and leaves the existing subscription "
                "alone; refutation theorem for what remains: replies written to a client that does not read block the "
                "object once the transport's buffer is full; tied by the regenerated mailbox / RemoveHandler / "
                "addSignalUser / removeSignalUser flows; hostile-client scenarios against a real server in child processes",
        "note": "partial: the property is false of the code for a client that floods without reading and for hostile element counts "
                "(known findings); time bounds are observed, not proved",
        "technique": "Lean 4 proof (lock-discipline invariant by induction over request sequences, refutation witnesses) + regenerated tie lemmas + hostile-client scenarios in child processes with a probe client",
    },
    "C18": {
        "text": "Lean 4 theorems on the type layer of the IDL: for every type built from the basic keywords, Vec, Map, "
                "Tuple (the empty one included) and struct names (identifiers that are not a keyword), nested arbitrarily, "
                "the type parser (ordered choice, keywords ending at a word boundary, white-space skipping terminals, "
                "Kleene with separator) reads back exactly what the SignatureIDL printers write, whatever may follow a "
                "type (parse_print, by mutual induction, any sufficient depth); for every signature type of C09's grammar "
                "whose structs are in scope the type read back stands for the identical signature (signature_survives); "
                "an action line (fn / sig / prop, name, named and typed parameters with either separator, returned type, //uid: "
                "comment) is read back as the same action (action_ok) and the actions of an interface block are stored under "
                "their uids (interface_roundtrip); the repeated keywords are unreachable; the hypotheses are witnessed; tied by the regenerated keyword list, "
                "alternative order, composite shapes, identifier patterns and printer formats, and by differential runs "
                "of types, whole meta-objects and fuzzed text through the real parser",
        "note": "partial: the end-to-end theorem with names (generateIDL_roundtrip, idl_roundtrip_of_signatures) holds for meta-objects "
                "without name clashes; with clashes structs are renamed (known finding) and what is proved is that the layouts "
                "survive (Props/C18Clash.generateIDL_layout: kinds, action names and ids, parameter names, member names and types — "
                "short of a hundred numbered attempts for one name); totality of the IDL parser on arbitrary text is sampled "
                "(child processes), not proved",
        "technique": "Lean 4 proof (print/parse round trip of the IDL type grammar by mutual induction) + regenerated tie lemmas + differential and round-trip runs, fuzzing in child processes",
    },
}
