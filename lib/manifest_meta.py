BASELINE_OFF = "cd /repo && go test -mod=mod -json -vet=off -count=1 -timeout 25m ./..."
HOOK_COMMITS = []
NOTES = ("Every check: regenerate facts from /repo, lake build theorems+ties, audit axioms, run real code vs Lean model "
         "driver on generated ops, compare. See DESIGN.md.")
NOT_APPLICABLE = {}

CHECKS = {
    "C01": {
        "text": "Lean 4 theorems over an explicit io.Reader model: header round trip for every valid header, equality with the "
                "documented byte layout, lossless self-delimiting reads for every finite message sequence under every "
                "fragmentation (incl. data+EOF), refusal after exactly 28 bytes; the model is tied to message.go/basic.go by "
                "regenerated field/step tables (kernel-checked equalities) and by a differential run of Message.Read/Write "
                "against the compiled model on scripted streams",
        "note": "trusts the Lean kernel, the go/ast extractor, the harness' scripted reader and the hand transcription of "
                "basic.ReadN's loop (tied by its extracted branch list and by differential runs incl. malformed streams)",
        "technique": "Lean 4 proof (induction over the chunk list / message list) + regenerated tie lemmas + differential correspondence",
    },
}
