#!/usr/bin/env python3
"""Regenerates MANIFEST.json from lib/config.py (claimed checks) and lib/manifest_meta.py."""
import json, os, sys
ROOT = os.path.dirname(os.path.dirname(os.path.abspath(__file__)))
sys.path.insert(0, os.path.join(ROOT, "lib"))
import config, manifest_meta as mm

props = [json.loads(l) for l in open(os.path.join(ROOT, "properties.jsonl"))]
checks = []
na = []
for p in props:
    pid = p["id"]
    if pid in config.PROPS and pid in mm.CHECKS:
        c = mm.CHECKS[pid]
        checks.append({
            "property_id": pid,
            "quick_cmd": f"./check {pid} --tier quick",
            "thorough_cmd": f"./check {pid} --tier thorough",
            "evidence_file": f"/verif/evidence/{pid}.json",
            "replay_cmd_template": f"./check {pid} --replay {{path}}",
            "engine": "lean4-proof+correspondence",
            "level_claimed": {"category": config.PROPS[pid]["level"], "text": c["text"], "design_ref": c.get("design_ref", f"DESIGN.md §3 {pid}")},
            "level_note": c["note"],
            "technique": c["technique"],
        })
    else:
        na.append({"property_id": pid, "reason": mm.NOT_APPLICABLE.get(pid, "check not built yet in this session (see DESIGN.md §7 build order); no claim is made")})
m = {
    "version": 1,
    "setup_cmd": "./setup.sh",
    "hooks": {
        "guard": "verif",
        "enable": "go build -tags verif (the harness module under /verif/harness replaces github.com/lugu/qiloop with /repo)",
        "baseline_off_cmd": mm.BASELINE_OFF,
        "source_commits": mm.HOOK_COMMITS,
        "add_only": True,
    },
    "engines": [{
        "name": "lean4-proof+correspondence",
        "path": "/verif/check",
        "serves_properties": [c["property_id"] for c in checks],
        "kind_free_text": "Lean 4 theorems about a hand-written executable model (lean/QiVerif/Model, Props), tied to the Go source by regenerated facts with kernel-checked tie lemmas (lean/QiVerif/Generated, Tie) and by a differential run of the real code against the model's compiled driver on generated operation lines",
    }],
    "checks": checks,
    "not_applicable": na,
    "notes": mm.NOTES,
}
json.dump(m, open(os.path.join(ROOT, "MANIFEST.json"), "w"), indent=1)
print("claimed:", [c["property_id"] for c in checks])
