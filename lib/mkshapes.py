#!/usr/bin/env python3
"""Rewrites lean/QiVerif/Model/GenShapes.lean from the regenerated facts (Generated/GenTypes.lean).
A maintenance step for the person who has reviewed a change of the statement generators and
re-validated the model of the generated code against it: the check never runs this."""
import os, re
ROOT = os.path.dirname(os.path.dirname(os.path.abspath(__file__)))
g = open(os.path.join(ROOT, "lean/QiVerif/Generated/GenTypes.lean")).read()
body = g[g.index("def listTypeMarshal"):g.index("end QiVerif.Gen.GenTypes")]
out = '''/-
  The statement generators as the model reads them: the structural calls of the jennifer DSL and
  the Go text they carry, function by function (meta/signature/type.go, meta/stub/stub.go,
  meta/idl/proxy.go, meta/idl/interface.go, meta/signature/name.go,
  type/object/metaobject_decorator.go).  Model/Gen.lean is the meaning given to these shapes;
  Tie/C05.lean checks that the source still has them.
-/
namespace QiVerif.GenShapes

''' + body + '''end QiVerif.GenShapes
'''
open(os.path.join(ROOT, "lean/QiVerif/Model/GenShapes.lean"), "w").write(out)
print("shapes:", len(re.findall(r"^def (\w+) :", body, flags=re.M)))
