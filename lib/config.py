"""Per-property configuration of ./check."""
import os, re

TRUSTED_BASE = [
    "Lean 4.33.0 kernel (leanchecker re-check in the thorough tier)",
    "axioms allowed: propext, Classical.choice, Quot.sound (audited per theorem with #print axioms)",
    "harness/cmd/extract (go/ast fact extractor) and harness/cmd/qih (generators, canonicalisation, executors)",
    "Lean driver line-protocol parsing (lean/QiVerif/Driver)",
    "harness/cmd/extract/locks.go and lockorder.go (translators: the skeletons they print are what the lock theorems are about; calls resolved by receiver type, else by name and arity within bus/; code outside bus/ assumed to take no mutex of bus/; calls through function values are not followed: pinned in Tie/LockOrder)",
    "Go runtime and standard library, goparsec, jennifer: modelled, not verified",
]


def consts(lean_dir):
    p = os.path.join(lean_dir, "QiVerif", "Generated", "Consts.lean")
    out = {}
    if os.path.exists(p):
        for m in re.finditer(r"def (\w+) : Nat := (\d+)", open(p).read()):
            out[m.group(1)] = int(m.group(2))
    return out


def driver_args(lean_dir):
    c = consts(lean_dir)
    return [str(c.get("maxPayloadSize", 10485760))]


def classify(pid, d):
    """canonical class of a model/implementation disagreement"""
    op = d["op"].split(" ")[0] if d["op"] else "?"
    f = CLASSIFIERS.get(pid)
    if f:
        try:
            return f(d)
        except Exception:
            pass
    return f"{op}: implementation differs from the proven model"


CLASSIFIERS = {}

# operations that put the world of a scripted scenario back into its initial state: a replay of a failing
# operation carries every operation since the last one of these
CONTEXT_RESETS = {"au.reset", "cl.reset", "ep.reset", "pr.reset", "sd.reset", "sg.reset", "sv.reset", "svc.reset"}

ALL_EXTRACTORS = ["Basic", "Message", "Conversion", "Session", "Service", "SigGrammar", "Value", "Reader", "Encoding", "GenReaders", "Endpoint", "Stream", "Client", "Queues", "Auth", "Calls", "Signals", "Property", "Directory", "Mailbox", "IdlGrammar", "GenTypes", "IdlPackage", "Locks", "LockOrder"]


def lean_string_list(path, name):
    """parse `def name : List String := [ ... ]` from a generated Lean file"""
    txt = open(path).read()
    m = re.search(r"def " + re.escape(name) + r" : List String :=\s*\[(.*?)\]\n", txt, flags=re.S)
    if not m:
        raise RuntimeError(f"{name} not found in {path}")
    return [bytes(x, "utf-8").decode("unicode_escape") for x in re.findall(r'"((?:[^"\\]|\\.)*)"', m.group(1))]


def c19_model_ops(lean_dir):
    toks = lean_string_list(os.path.join(lean_dir, "QiVerif", "Generated", "Session.lean"), "clientTokens")
    enc = "|".join(t.replace(" ", "_") for t in toks)
    return [(f"session.search 2 {enc}", "safe"), (f"session.search 3 {enc}", "safe")]

PROPS = {
    "C01": {
        "level": "proof",
        "extract": ["Message", "Basic"],
        "extra_modules": ["QiVerif.Props.C01Write"],
        "rule": "random header fields (boundary-biased), payload lengths 0..4 KiB (64 KiB / 1 MiB thorough), "
                "1-20 messages per stream, 7 fragmentation strategies, optional data+EOF last read, trailing bytes, "
                "invalid magic/version/type/size; a case is non-trivial when it contains at least one full header and "
                "distinct when its op line differs",
        "assumptions": [
            "io.Reader contract as modelled in Bytes.lean (Read returns at most len(p) bytes, may return data with EOF)",
            "payload limit enters the model as a parameter read from the compiled constant MaxPayloadSize",
        ],
    },
    "C20": {
        "level": "proof",
        "extract": ["Conversion"],
        "rule": "random Go types (depth<=4: all scalar kinds, slices, maps with scalar/string keys, structs built with "
                "reflect.StructOf) and boundary-biased values; 60% compatible targets (wider ints, f32->f64, permuted and "
                "re-cased struct fields, nested) converted there and back, 20% kind clashes behind non-empty containers, "
                "20% arbitrary targets (narrowing, sign change, missing/extra fields) for the model correspondence; "
                "distinct = distinct op line, all generated cases are non-trivial (at least one conversion executed)",
        "assumptions": [
            "FloatExact: float32->float64->float32 is the identity on non-NaN values (hypothesis of the theorems; the driver uses the machine's IEEE conversions)",
            "pointer-typed elements and unexported fields are outside the property's domain and not generated",
            "Go's int is 64 bits on this platform",
        ],
    },
    "C19": {
        "level": "proof",
        "race": True,
        "extract": ["Session", "Queues", "Client", "Locks", "LockOrder"],
        "extra_modules": ["QiVerif.Props.C19Refresh", "QiVerif.Tie.ClientCall", "QiVerif.Props.Locks", "QiVerif.Tie.Locks", "QiVerif.Props.LockOrder", "QiVerif.Tie.LockOrder"],
        "model_ops": c19_model_ops,
        "rule": "stress: N in {2,8,32} (thorough: up to 64) goroutines request proxies for 5 services behind 3 endpoints "
                "(accept delayed 1-4 ms so that dial windows overlap) from one fresh session per round, call through each "
                "proxy, then count live connections per endpoint; run in a child process (a fatal runtime error cannot be "
                "recovered); every round is non-trivial; plus exhaustive exploration of all schedules of 2 and 3 goroutines "
                "of the program compiled from the regenerated token list; flood: one object busy with a slow call of another "
                "client while 4 / 8 / 40 goroutines request a proxy of it through one session (40 exceeds the server's "
                "buffering: known finding)",
        "assumptions": [
            "RWMutex without writer preference (superset of Go's interleavings for safety; no recursive read-locking in this code)",
            "a working proxy over a real network and wall-clock bounds are observed in the stress run, not proved",
            "closers (entry deletion on disconnect) do not fire during the requests",
        ],
        "timeout": {"quick": 600, "thorough": 3000},
    },
    "C16": {
        "level": "proof",
        "race": True,
        "extract": ["Service", "Signals", "Locks", "LockOrder"],
        "extra_modules": ["QiVerif.Props.C16Add", "QiVerif.Props.C16Mailbox", "QiVerif.Props.C16Client", "QiVerif.Tie.ClientService", "QiVerif.Tie.UpdateLoop", "QiVerif.Props.Locks", "QiVerif.Tie.Locks", "QiVerif.Props.LockOrder", "QiVerif.Tie.LockOrder"],
        "rule": "random histories (8-32 operations each) of Add / Remove (live, already removed, unknown id) / remote call "
                "/ remote terminate (own id, 0, wrong id) / subscribe (one connection per subscriber) on a real service "
                "hosted by a real server, followed by state snapshots (invocation and OnTerminate counters per object "
                "instance, subscribers told); exact comparison with the model's step; distinct = distinct op line within "
                "the run; reset/bookkeeping lines are not counted as non-trivial",
        "assumptions": [
            "operations are issued sequentially (the concurrent part of the quantifier is covered by the model's atomic "
            "actions being the code's critical sections, extracted in Service.lean, not by a concurrent run)",
            "random object ids are an arbitrary choice among unused ids",
        ],
    },
    "C09": {
        "level": "proof",
        "extract": ["SigGrammar"],
        "extra_modules": ["QiVerif.Props.C09Sound"],
        "rule": "random signatures of the grammar (depth<=5, all 16 basic letters, lists, maps, tuples, structs with plain "
                "and template names; tuple nesting <= 7 because of the exponential parse time recorded under C07), 45% parsed "
                "as they are (must print back identically), 15% with white space injected, 25% near misses (one byte "
                "deleted/inserted/swapped), 15% random bytes over the grammar's alphabet; printed signature, IDL name and "
                "reflect type string compared with the model; fixed point checked on everything accepted; thorough adds "
                "all signatures of depth<=2/width<=2 over {i,s,m}; 10 (thorough 15) texts nested 999 … 9,000,000 levels "
                "(lists, maps, unclosed, closed before opened) in child processes: an error or a type, at and around MaxDepth "
                "compared with the model",
        "assumptions": [
            "goparsec combinator semantics as transcribed in Model/Peg.lean from parsec.go/tokeniser.go/scanner.go",
            "Go regexp leftmost-first semantics for the two token patterns (hand-written matchers)",
            "the depth of the parser's calls is proportional to the nesting of the text; the finite stack of a goroutine is not "
            "modelled: the bound MaxDepth (1000 levels, tied) keeps the depth far below it, and the probes sig.deep (nesting 999 … "
            "9 million, in child processes) sample that the process survives",
        ],
    },
    "C02": {
        "level": "proof",
        "extract": ["Value", "Reader", "SigGrammar"],
        "extra_modules": ["QiVerif.Lemmas.Codec", "QiVerif.Lemmas.Value"],
        "rule": "45% random dynamic-value trees (every constructor, depth<=3, opaque values of random composite signatures "
                "with typed data incl. nested dynamic values) encoded by the harness' own encoder, followed by random "
                "trailing bytes: decoded rendering, bytes left and re-encoding must equal the original; 30% typed data of "
                "random signatures through signature.MakeReader (+ the harness encoder checked against the Lean statement "
                "of the documented layout); 25% mutated encodings (bit flip, truncation, insertion) for the correspondence",
        "assumptions": [
            "a dynamic value whose own signature is 'm' (a value directly wrapping a value) is normalised by NewValue to the inner value; it is outside the statement (no constructor produces it) and not generated",
            "object references ('o') and 'X' inside opaque signatures are not generated (no typed values are modelled for them)",
            "theorems are parametric in the stack depth (fuel); the driver runs the model with 8*len+64",
        ],
    },
    "C03": {
        "level": "proof",
        "context_prefix": "enc.fail",   # a replay starts with the last Encode that failed before the operation
        "extract": ["Encoding", "Reader", "Value"],
        "extra_modules": ["QiVerif.Lemmas.Codec", "QiVerif.Lemmas.Value", "QiVerif.Lemmas.Decode"],
        "rule": "random signatures (depth<=4, every scalar incl. c C w W, strings, void, dynamic values, lists, maps with "
                "scalar/string keys, tuples, structs) and random values of the generated Go type (reflect.StructOf etc., "
                "m -> value.Value); per case three P-lines: reflection Encode vs documented layout (map entries "
                "canonically sorted), signature reader on those bytes + trailing bytes, reflection Decode back to the value",
        "assumptions": [
            "Go values are built by the harness with the generator's type mapping (m -> value.Value); Type.Type() (m -> *interface{}) is not used",
            "lists and maps up to the reflection decoder's limit of 4096 entries",
            "map iteration order: encodings are compared after sorting entries by encoded key",
        ],
    },
    "C08": {
        "level": "proof",
        "extract": ["Reader", "Encoding", "Value", "Message", "Basic"],
        "extra_modules": ["QiVerif.Lemmas.Stable"],
        "rule": "valid encodings (typed data of random signatures, dynamic values, MetaObject, ObjectReference, "
                "ServiceInfo, capability maps, messages) produced by the harness' own encoder, cut at every position "
                "(encodings up to 160 bytes; 60 sampled positions beyond) and fed to the signature-driven reader, the "
                "reflection decoder, NewValue, the generated readers, ReadCapabilityMap and Message.Read; each cut is a case",
        "assumptions": [
            "stack-depth parametric theorems: a strict prefix yields an error or runs out of depth, never a value",
        ],
    },
    "C07": {
        "level": "proof",
        "extract": ["GenReaders", "Basic", "Message", "Value", "Reader", "Encoding", "SigGrammar"],
        "extra_modules": ["QiVerif.Props.C09Sound"],
        "rule": "every decoder entry point (Message.Read, NewValue, signature readers and reflection decoder for random "
                "signatures, ReadMetaObject, ReadObjectReference, ReadServiceInfo, ReadCapabilityMap, signature.Parse, "
                "idl.ParsePackage) on: a corpus of minimised witnesses, valid encodings, valid encodings with each "
                "4-byte field replaced by 0/1/2/4096/4097/0x01000000/0x7FFFFFFF/0x80000000/0xFFFFFFFF, random bytes, "
                "nested parentheses/brackets, mutated IDL text; each input runs in a child process (6 GiB address-space "
                "limit, 5 s per input, TotalAlloc and time measured; an input that crashes or times out inside a batch is "
                "re-run alone); a case counts when distinct; outcome class ok/err compared with the model, any other "
                "class (panic, crash, oom, timeout, alloc > 48 MiB + 512 x len, time > 3 s) is a violation",
        "assumptions": [
            "real memory and time are runtime behaviour: measured per input by the harness, predicted ('hang') but not proved by the model",
            "constant caps (MaxStringSize, MaxPayloadSize: 10 MiB; 4096 entries) count as bounded: one capped allocation may precede the error",
            "the IDL parser has no Lean model yet: its inputs are decided by the harness oracle alone",
        ],
        "timeout": {"quick": 600, "thorough": 3000},
    },
    "C17": {
        "level": "proof",
        "race": True,
        "extra_modules": ["QiVerif.Props.Locks", "QiVerif.Tie.Locks", "QiVerif.Props.LockOrder", "QiVerif.Tie.LockOrder"],
        "extract": ["Endpoint", "Locks", "LockOrder"],
        "rule": "exact mode: random sequences (8-38 ops) on a real endpoint over an in-memory connection: MakeHandler "
                "(filters = residue classes of the action id, some removing themselves on a given message id, queue "
                "capacity 1-3), RemoveHandler (live, removed, unknown ids), incoming events and calls (each followed by a "
                "sentinel message so that dispatch is known to have finished), consumer reads, Close or peer close; slot "
                "indices, results and the final per-handler record (messages received, callback count, queue closed) "
                "are compared with the table machine; race mode: 4 and 12 goroutines mixing the same operations with a "
                "shutdown in the middle, in a child process (double close / send on closed channel are fatal), every "
                "handler registered before the shutdown must be closed exactly once",
        "assumptions": [
            "each action of the model is one critical section of handlersMutex (tied by the regenerated lock/operation sequences)",
            "closers and filters do not call back into the endpoint (the API documents this precondition)",
            "the 'consumer blocked' error reply is sent while holding the table lock: progress assumes the peer reads or the stream is closed",
        ],
    },
    "C10": {
        "level": "proof",
        "race": True,
        "extra_modules": ["QiVerif.Props.Locks", "QiVerif.Tie.Locks", "QiVerif.Props.LockOrder", "QiVerif.Tie.LockOrder"],
        "extract": ["Endpoint", "Message", "Stream", "Locks", "LockOrder"],
        "rule": "N in {2,3,4,8,16} goroutines each Send K in {4,16,32,64} messages (payload 0 B - 350 kB, content a function "
                "of the message id) through one sending endpoint over net.Pipe, unix://, tcp://, tcps:// (TLS) and "
                "pipe:// (fd passing), via the repository's Listen/DialEndPoint or a Write-recording stream; the receiving "
                "endpoint has three residue-class handlers and a catch-all; oracle: every header and payload intact, "
                "each id exactly once, per-sender order, each recorded Write is the documented wire form of one whole "
                "message, each handler received the filter of the arrival order; the observed arrival order and the "
                "handlers' sequences are then decided by the model (acceptor + table machine); refused histories "
                "(lost / duplicated / reordered / unknown message) are compared as well",
        "assumptions": [
            "one Write call of the transport is atomic with respect to other Write calls on the same connection "
            "(net.Conn, tls.Conn, os.File and net.Pipe serialise writers with an internal lock)",
            "goroutine scheduling is the Go runtime's: the harness samples schedules, the theorem covers all interleavings of whole Write calls",
            "handler queues have room (capacity >= number of messages): a full queue drops by design (C17)",
        ],
        "timeout": {"quick": 600, "thorough": 3000},
    },
    "C11": {
        "level": "proof",
        "race": True,
        "extract": ["Client", "Endpoint", "Basic", "Locks", "LockOrder"],
        "extra_modules": ["QiVerif.Props.C11Faults", "QiVerif.Props.Locks", "QiVerif.Tie.Locks", "QiVerif.Props.LockOrder", "QiVerif.Tie.LockOrder"],
        "rule": "the real bus client (Call, Subscribe, OnDisconnect) on an endpoint over a harness-implemented net.Stream "
                "whose every Write blocks until the script lets it succeed or fail and whose reader gets exactly the bytes or "
                "the error the script feeds; random scripts (6-28 steps: calls, early replies to calls still inside Send, "
                "replies, cancels, subscriptions, events, error events, disconnect callbacks) with the loss (EOF or error "
                "after 0-35 bytes of a frame, an error reported once together with the last 0-36 bytes read and then silence, "
                "local Close, failing Write followed by EOF) at a random position; "
                "systematically every byte offset of the frame in flight x EOF/error/error-once-with-bytes; every call's outcome, every "
                "subscription's events and closed state and every callback count are compared with the client machine; "
                "storms: 1-16 concurrent calls over net.Pipe, peer closes / cuts a reply in the middle / local close at a "
                "random point: all calls return within 10 s, none gets another call's reply, a later call fails, "
                "subscription closed, callback once",
        "assumptions": [
            "faults are persistent: once a Read or Write of the stream failed or the stream is closed, every later operation on it fails; "
            "the exception is the read error reported once together with bytes, after which the stream is silent (C11Faults.read_fault_ends_the_message: the message being read fails whatever follows)",
            "a blocked Write returns when the transport reports the loss (the harness lets every Write return)",
            "wall-clock bounds are observed (10 s ceiling per storm, 3 s per scripted step), not proved",
            "a subscriber that stops reading its events channel is outside the statement",
        ],
        "timeout": {"quick": 600, "thorough": 3000},
    },
    "C05": {
        "level": "proof",
        "context_prefix": "gen.pkg ",
        "extract": ["GenTypes", "Basic", "Encoding"],
        "extra_modules": ["QiVerif.Lemmas.Codec", "QiVerif.Lemmas.Decode"],
        "rule": "IDL packages (8, thorough 80; 40% small ones with one or two actions, the others with up to three structs "
                "referring to each other, one or two interfaces, 3-8 actions: methods with 0-3 parameters and any return "
                "type or none, signals with 1-3 parameters, properties with 1-3 parameters; types over every scalar, "
                "str, any, Vec, Map with scalar keys, Tuple (the empty one included) and the package's structs, nested; "
                "lower-case, camel-case, underscore and digit identifiers) are parsed by idl.ParsePackage, rendered by "
                "stub.GeneratePackage (implementor interface, stub, proxy, structs), compiled by go build in a scratch "
                "module against the current tree together with a generated recording implementor, and run: every "
                "interface on a real server with a directory, reached through a real session; per action 3 (thorough 6) "
                "operations with generated values (boundary integers, empty and non-empty containers, binary strings, "
                "dynamic values of nested types): a call through the proxy (arguments as received by the implementor, "
                "result as returned to the caller), a signal through the helper (event as received by a generated "
                "subscriber), a property through Set / the stub's callback / Get and through the helper's Update / Get; "
                "values cross to the run as bytes of the documented layout written and read by an independent codec; "
                "every answer is compared with the model's pipeline and with the value sent; 27 listed packages outside "
                "the class and the property of type any are run as well (known findings); 300 (3000) sets of method, "
                "signal and property names (with repetitions, names equal after Title, reserved names) through "
                "ForEachMethodAndSignal and CleanMethodName against the model's registered names; 18 (70) name sets "
                "compiled as a package against the model's prediction of clashing method sets",
        "assumptions": [
            "that the generated text compiles is established per generated package by the Go compiler (translation validation by "
            "sampling), not proved: Go's type checker is not modelled",
            "between the two generated halves the bytes travel unchanged: framing (C01), routing (C04), signal delivery (C13) and "
            "the property register (C14) are the subject of those properties and are only exercised here",
            "parameters of interface type (object references to live objects) are outside the generated values; they compile "
            "(observed) but are not driven",
            "identifier classes the generators do not sanitise are listed findings, not part of the class",
        ],
        "timeout": {"quick": 1500, "thorough": 6000},
    },
    "C06": {
        "level": "proof",
        "race": True,
        "extra_modules": ["QiVerif.Props.Locks", "QiVerif.Tie.Locks", "QiVerif.Props.LockOrder", "QiVerif.Tie.LockOrder"],
        "extract": ["Auth", "Locks", "LockOrder"],
        "rule": "a real StandAloneServer (authenticator: dictionary / Yes / No; two probe services counting invocations) on "
                "harness-owned in-memory connections (1-3 per round); raw frames of every message type (incl. unknown type "
                "bytes) x service 0 / probe / unknown services x objects x actions; authenticate payloads from a grammar "
                "(accepted credentials in 5 shapes incl. absent token, duplicate keys, trailing bytes; rejected: wrong token, "
                "unknown user, forged __qi_auth_state with and without credentials, wrongly typed user/token, duplicate "
                "with last losing, oversized count, truncated, count too large, random bytes, empty, key case variants); "
                "one frame at a time to quiescence, the peer-visible outcome and the probe invocation count compared with "
                "the gate machine; bursts of 20-80 frames without accepted credentials while another connection is "
                "authenticated: no probe may be invoked",
        "assumptions": [
            "the authenticator is an arbitrary function of user and token (theorem); three are exercised",
            "queue overflow (more than 10 unprocessed frames) only drops frames: ignored by the model, harmless for the gate",
            "the capability map is read and written by the connection goroutine and the service-0 mailbox goroutine without "
            "synchronisation (a data race in Go's memory model): the model interleaves them atomically",
        ],
        "timeout": {"quick": 600, "thorough": 3000},
    },
    "C04": {
        "level": "proof",
        "race": True,
        "extract": ["Calls", "Client", "Endpoint", "Auth"],
        "extra_modules": ["QiVerif.Props.C04Forward", "QiVerif.Props.C04ForwardPost", "QiVerif.Tie.ClientCall", "QiVerif.Tie.ClientObject"],
        "rule": "(a) server side, exact: a real server with two probe services counting executions (a hand-written object "
                "behind the generic object dispatcher: echo / zero-argument tick; the generated PingPong stub), raw frames "
                "of every message type x known / unknown service, object, action x good / truncated / random arguments, one "
                "at a time to quiescence (a call of an unknown action to the same target is the barrier): what comes back "
                "and the execution counter are compared with the dispatcher model; (b) client side, exact: the real client "
                "on the scripted stream with 1-3 clients sharing the endpoint, replies in any order, to calls still inside "
                "Send, duplicated, and for unknown ids; (c) storms: 2-32 goroutines x echo with a unique argument through "
                "one proxy / several proxies of a session / Cache proxies sharing one endpoint / one connection each: every "
                "result is the echo of its own argument, the server executed each argument exactly once",
        "assumptions": [
            "the transport delivers every frame once (C01, C10): a request is served once, its response delivered once",
            "the method is an uninterpreted function of (service, object, action, argument); argument decoding is part of it",
            "posts have no client API in this code base: they are frames written by the harness",
            "the error frame a post to a missing target is answered with is not routed back to a caller in the model",
        ],
        "timeout": {"quick": 600, "thorough": 3000},
    },
    "C13": {
        "level": "proof",
        "race": True,
        "extract": ["Signals", "Client", "Locks", "LockOrder"],
        "extra_modules": ["QiVerif.Props.C13Emit", "QiVerif.Props.C13Loop", "QiVerif.Tie.UpdateLoop", "QiVerif.Props.Locks", "QiVerif.Tie.Locks", "QiVerif.Props.LockOrder", "QiVerif.Tie.LockOrder"],
        "rule": "a real server with the generated PingPong stub (signal pong) and 1-3 real clients (bus.Client + "
                "Proxy.SubscribeID) over in-memory connections whose client-to-server direction the script can hold and "
                "release; random scripts of subscribe / cancel / emit / other traffic / hold / release / observe (8-26 "
                "steps), including subscribers and cancels waiting for the subscription lock while a registration is kept "
                "in flight; after every operation the answer (acked / pending / done) and, at observation points, the exact "
                "sequence each subscriber received and whether its channel is closed are compared with one machine per "
                "connection; storms: 1-6 connections x 2-8 subscribers coming and going while 300-2000 numbered events "
                "are emitted: every subscriber's sequence strictly increasing, its window (acknowledgement to cancel "
                "request) complete up to a tail of at most 3 events in flight at the cancel request, channel closed after cancel",
        "assumptions": [
            "the window ends with the events the connection's reader had dispatched when cancel was requested: an event in "
            "flight at that moment may be dropped (the fan-out goroutine may see the abort first), and nothing can be "
            "read from a closed channel anyway",
            "an emission is atomic with respect to (un)registrations: UpdateSignal snapshots the users under the read lock and "
            "sends after releasing it, so an emitter racing with an unregistration can put one event on the wire after the "
            "unregistration's reply (not exercised: emissions come from one goroutine while the object's mailbox is idle)",
            "user ids (rand.Int) do not collide; queues are within capacity (100 events per subscriber)",
        ],
        "timeout": {"quick": 900, "thorough": 3000},
    },
    "C14": {
        "level": "proof",
        "race": True,
        "extract": ["Property", "Signals", "Locks", "LockOrder"],
        "extra_modules": ["QiVerif.Props.C14Events", "QiVerif.Props.C13Loop", "QiVerif.Tie.UpdateLoop", "QiVerif.Props.Locks", "QiVerif.Tie.Locks", "QiVerif.Props.LockOrder", "QiVerif.Tie.LockOrder"],
        "rule": "two real objects on a real server — the generated Bomb stub (delay: int32, validator) and a hand-written "
                "object behind the generic object dispatcher with an int32, a string and a float property and its own "
                "change callback — driven through a session: setProperty by name / by id / with a boolean as name / unknown "
                "names and ids, values of the declared type and of four other types, values the validator refuses; "
                "property reads; service-side updates (accepted, refused, unknown id); one subscriber per property; "
                "every answer, every value read back (signature and data) and the per-property event sequences are "
                "compared with the register machine; then 60 (thorough 600) concurrent histories of 2-3 threads x 2-3 "
                "operations (reads, client writes, service writes; unique values) recorded with invocation/response "
                "stamps and decided by the linearizability acceptor",
        "assumptions": [
            "a read and a save are atomic steps (each is one critical section of propertiesMutex, tied by the regenerated flows)",
            "service-side updates go through the generated Update<Prop> helper, which passes the declared signature",
            "the linearizability acceptor of the driver is a brute-force search over short histories, not a proved decision procedure",
        ],
        "timeout": {"quick": 600, "thorough": 3000},
    },
    "C15": {
        "level": "proof",
        "race": True,
        "extra_modules": ["QiVerif.Props.Locks", "QiVerif.Tie.Locks", "QiVerif.Props.LockOrder", "QiVerif.Tie.LockOrder"],
        "extract": ["Directory", "Locks", "LockOrder"],
        "rule": "a real directory server; remote operations through the generated ServiceDirectory proxy (register with valid "
                "and invalid infos — empty name / machine id, process 0, no or empty endpoint —, ready, unregister, update "
                "with same / other name, lookup, list), local operations of the hosting server (NewService = register + "
                "ready, Terminate = unregister), a subscriber to serviceAdded / serviceRemoved; random scripts of 10-35 "
                "operations over 4 names x 6 ids (thorough: also every sequence of 3 operations over a 10-operation "
                "alphabet) compared answer by answer, list by list and event by event with the directory machine; 40 "
                "(thorough 400) concurrent histories of two remote clients and the hosting server over three names, "
                "recorded with invocation / response stamps and decided by the linearizability acceptor",
        "assumptions": [
            "each operation is one atomic step: every method of the directory runs under its mutex (regenerated flows)",
            "serviceAdded / serviceRemoved travel on separate subscriptions: their relative order across the two signals is not observable by a client",
            "the linearizability acceptor of the driver is a brute-force search over short histories, not a proved decision procedure",
        ],
        "timeout": {"quick": 600, "thorough": 3000},
    },
    "C12": {
        "level": "proof",
        "race": True,
        "extract": ["Mailbox", "Signals", "Endpoint", "Queues", "Service", "Locks", "LockOrder"],
        "extra_modules": ["QiVerif.Props.C16Mailbox", "QiVerif.Tie.C16", "QiVerif.Props.Locks", "QiVerif.Tie.Locks", "QiVerif.Props.LockOrder", "QiVerif.Tie.LockOrder"],
        "rule": "per scenario a child process (4 GiB address-space ceiling) runs a directory server with a PingPong and a Bomb "
                "service on a unix socket; a hostile authenticated client sends: valid mixed traffic; 40 repeated / "
                "conflicting / foreign (un)subscriptions incl. the same id twice and wrong object ids; 200 raw frames of "
                "every type to every service / object / action (removal requests excluded) with random and truncated "
                "arguments; 60 requests whose string length fields are 0xFFFFFFFF, 0x7FFFFFFF, 0x80000000, 16 MiB, "
                "10 MiB + 1, 4097; a flood of 3000 calls while reading; 20 connections that subscribe, start a frame and "
                "vanish in the middle of it; then a fresh client must get an answer from all three objects within 4 s; "
                "two further scenarios exhibit the known findings (hostile element count; flood without reading)",
        "assumptions": [
            "the model covers the lock discipline of the subscription table and the blocking write; decoding and dispatch "
            "totality are the subject of C04, C07 and C08 and are only exercised here",
            "bounded time is observed (4 s deadline for the probe), not proved",
            "removal requests (terminate, unregisterService) are excluded from the hostile sequences: they remove what they name (C16, C15)",
        ],
        "timeout": {"quick": 900, "thorough": 3000},
    },
    "C18": {
        "level": "proof",
        "extract": ["IdlGrammar", "SigGrammar", "IdlPackage"],
        "extra_modules": ["QiVerif.Props.C18Clash", "QiVerif.Lemmas.Idl", "QiVerif.Lemmas.IdlLines", "QiVerif.Props.C18Lines", "QiVerif.Props.C18Scope",
                          "QiVerif.Props.C18Package", "QiVerif.Tie.C18Package", "QiVerif.Props.C18TypeSet", "QiVerif.Tie.C18TypeSet", "QiVerif.Props.C18EndToEnd"],
        "rule": "type texts (600, thorough 6000: nested Vec / Map / Tuple over the 15 basic keywords, declared, undeclared and "
                "template-named references, near-keywords such as strx / int7 / anything, empty and broken texts, white "
                "space inside) wrapped into a package with three struct declarations and parsed by idl.ParseIDL: the "
                "parameter signature (or error / unresolved) is compared with the type parser of the model; every type "
                "printed by SignatureIDL for the signatures C09's generator draws is parsed back likewise; 300 (3000) "
                "groups of 1-4 action lines (as GenerateIDL writes them and as a person might: other white space, either "
                "separator, no uid, other comments, repeated uids, uid 0, registerEvent, names such as fn / end / fnord, a "
                "trailing separator, broken lines) parsed inside an interface by idl.ParseIDL are compared with the "
                "model's action parser and id assignment; 300 (3000) whole package texts (optional header; 1-3 interface "
                "blocks, 0-4 struct blocks, an enum, in any order; members and parameters of nested types that refer to "
                "declared structs - themselves and each other included -, to interfaces, enums and names nobody declares; "
                "duplicate names, a struct named like an interface, comments after every line, a missing end, trailing "
                "garbage, extra white space) parsed by idl.ParsePackage: every declaration with its Signature() / MetaObject() "
                "is compared with the package parser and the scope resolution of the model; 150 (1500) groups of 1-2 generated "
                "meta-objects - a third with struct names that clash with each other or with the name of an interface - go through "
                "GenerateIDL: the text is compared byte for byte with the one the model of the type set and the printers writes "
                "(idl.gen), and read back: same signatures, or with clashes the same layouts; 150 "
                "(thorough 1500) generated meta-objects (1-2 interfaces; methods with named parameters, signals, "
                "properties; nested containers, tuples, structs shared between actions, template struct names) go "
                "through GenerateIDL and ParseIDL and must come back with the same action ids, names and signatures; "
                "4 (thorough 40) x 400 mutated / random IDL texts in child processes must yield a package or an error",
        "assumptions": [
            "the theorems cover the type layer (parse_print, signature_survives), the action lines and interface blocks "
            "(action_ok, interface_roundtrip), the struct blocks, the header and the package (struct_ok, parsePackage_printPkg), the "
            "resolution of references in the scope (resolve_total: it ends on every scope; resolve_declared) and their "
            "composition (meta_object_roundtrip), and the way from the meta-objects to the blocks: the type set with its renaming on "
            "name clashes (reg, genItfs; reg_fam, genItfs_fam: without clashes nothing is renamed) up to generateIDL_roundtrip; "
            "with clashes the theorem does not apply (names change): the text is compared byte for byte with the model (idl.gen) and "
            "the layouts with the round-trip oracle",
            "template struct names (Name<T>) are outside the class of the theorems and exercised by the correspondence only",
            "totality of the real parser is sampled (fuzzing in child processes); the model's parser is total by construction",
        ],
        "timeout": {"quick": 900, "thorough": 3000},
    },
}
