#!/bin/sh
# Re-runs every stored seeded change against the checks that are recorded as catching it
# (seeded/<name>/meta.json: property; first word of each detected_by entry that is a check id).
# One line per seed: <name> <check> caught-with-input | caught-by-tie | MISSED | patch-does-not-apply
cd "$(dirname "$0")"
export VERIF_EVIDENCE_DIR=/tmp/qiverif-mut-evidence
for d in seeded/*/; do
  name=$(basename $d)
  prop=$(python3 -c "import json;print(json.load(open('$d/meta.json'))['property'])" 2>/dev/null)
  [ -z "$prop" ] && { echo "$name ? no-meta"; continue; }
  if ! git -C /repo apply --check "$PWD/$d/patch.diff" 2>/dev/null; then echo "$name $prop patch-does-not-apply"; continue; fi
  git -C /repo apply "$PWD/$d/patch.diff"
  out=$(./check $prop 2>&1)
  git -C /repo checkout -- . 
  if echo "$out" | grep -q "^VIOLATION.*no-failing-input-found"; then
    if echo "$out" | grep "^VIOLATION" | grep -qv "no-failing-input-found"; then echo "$name $prop caught-with-input"; else echo "$name $prop caught-by-tie"; fi
  elif echo "$out" | grep -q "^VIOLATION"; then echo "$name $prop caught-with-input"
  else echo "$name $prop MISSED"; fi
done
git -C /repo status --short
