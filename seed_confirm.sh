#!/bin/sh
# usage: seed_confirm.sh <id> <worktree> <pkg dir rel> <demo file in out dir> <test -run regex>
# Confirms a seeded change: (a) builds, (b) existing suite passes with it, (c) demo fails with it,
# (d) demo passes without it.  Writes /verif/seeded/<name>/{patch.diff,demo,meta.json-draft}.
id=$1; wt=$2; pkg=$3; demo=$4; re=$5; name=${6:-$id}
export GOFLAGS=-mod=mod GOPROXY=off GOSUMDB=off GOTOOLCHAIN=local
out=/tmp/mut/$id-out
cd $wt || exit 2
git checkout -q -- . ; rm -f $pkg/$(basename $demo)
git apply $out/patch.diff || { echo "patch does not apply"; exit 2; }
go build ./... || { echo "BUILD FAILS"; exit 1; }
runsuite() { go test -vet=off -count=1 ./... 2>&1 | grep -v "no test files" | grep -v "^ok" | grep -v TestSynchronizedTimestamp | grep -v "clock" | grep -E "^(FAIL|---|panic)" | head -8; }
suite=$(runsuite)
# other suites may be running on this machine (fixed ports, timing): a failure is looked at twice
[ -n "$suite" ] && suite=$(runsuite)
git checkout -q go.mod
cp $out/$(basename $demo) $pkg/
with=$(go test -vet=off -count=1 -run "$re" ./$pkg/ 2>&1 | tail -1)
git checkout -q go.mod
# (no git stash: refs/stash is shared by all worktrees of a repository)
git apply -R $out/patch.diff || { echo "cannot revert the patch"; exit 2; }
without=$(go test -vet=off -count=1 -run "$re" ./$pkg/ 2>&1 | tail -1)
git checkout -q go.mod
git apply $out/patch.diff
echo "suite-with-change (non-ok lines): [$suite]"
echo "demo with change:    $with"
echo "demo without change: $without"
mkdir -p /verif/seeded/$name
cp $out/patch.diff /verif/seeded/$name/patch.diff
cp $out/$(basename $demo) /verif/seeded/$name/
cp $out/NOTES.md /verif/seeded/$name/NOTES.md 2>/dev/null
