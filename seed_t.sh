#!/bin/sh
# usage: seed_t.sh <id>c <pkg dir> <regex> <name> <check ids…>
# confirm a seeded change in its worktree, then run the named checks against it in /repo
id=$1; pkg=$2; re=$3; name=$4; shift 4
lc=$(echo $id | tr A-Z a-z)
cd "$(dirname "$0")"
./seed_confirm.sh $id /tmp/seed/$id $pkg ${lc}_demo_test.go "$re" $name
./mutate.sh /verif/seeded/$name/patch.diff "$@" 2>&1 | grep -E "VIOLATION|\[check\]|exit=|apply" | cut -c1-200
